#!/bin/bash
# usage: lib/rebase_seed.sh <seed-id> [hand-ported.diff]
# Re-applies an archived change whose patch.diff no longer applies to /repo HEAD (a later fix touched the same lines):
# fuzzy `patch -F3` (or the given hand-ported diff), build, regenerate patch.diff, re-confirm with confirm_seed.sh.
id=$1; hand=$2
prop=${id%-*}
export GOFLAGS=-mod=mod GOPROXY=off GOSUMDB=off GOTOOLCHAIN=local
wt=/tmp/rebase-$id-$$
git -C /repo worktree add -q --detach $wt HEAD || exit 3
trap "git -C /repo worktree remove --force $wt 2>/dev/null; rm -rf $wt /tmp/rebsrc-$id" EXIT
cd $wt
if [ -n "$hand" ]; then git apply "$hand" || { echo "REBASE-FAIL hand diff does not apply"; exit 1; }
else patch -p1 -F3 -s < /verif/seeded/$id/patch.diff || { echo "REBASE-FAIL fuzzy patch"; exit 1; }; fi
find . -name '*.orig' -delete
go build ./... || { echo "REBASE-FAIL build"; exit 1; }
git diff > /tmp/rebased-$id.diff
cd /verif
python3 - "$id" <<'PY'
import json,sys
m=json.load(open('/verif/seeded/%s/meta.json'%sys.argv[1]))
json.dump({k:m[k] for k in ('also_run',) if k in m}, open('/tmp/rebmeta-%s.json'%sys.argv[1],'w'))
PY
rm -rf /tmp/rebsrc-$id; cp -r seeded/$id /tmp/rebsrc-$id
[ -f /tmp/rebsrc-$id/patch.as_delivered.diff ] || cp /tmp/rebsrc-$id/patch.diff /tmp/rebsrc-$id/patch.as_delivered.diff
cp /tmp/rebased-$id.diff /tmp/rebsrc-$id/patch.diff
./lib/confirm_seed.sh /tmp/rebsrc-$id $id $prop 2>&1 | tail -2
python3 - "$id" <<'PY'
import json,sys
i=sys.argv[1]
p='/verif/seeded/%s/meta.json'%i
m=json.load(open(p)); m.update(json.load(open('/tmp/rebmeta-%s.json'%i)))
m['rebased']="patch.diff is the delivered change (patch.as_delivered.diff) re-applied to the tree after later fix commits touched the same lines; the demonstration was re-confirmed on that tree"
json.dump(m,open(p,'w'),indent=1)
PY
rm -f /tmp/rebased-$id.diff /tmp/rebmeta-$id.json
