#!/usr/bin/env python3
"""Generates /verif/MANIFEST.json from the table below (keeps it schema-valid)."""
import json, os, subprocess, sys
VERIF = os.path.dirname(os.path.dirname(os.path.abspath(__file__)))

CLAIMS = {}   # id -> dict(category, text, note, technique, design_ref)
def claim(pid, category, text, note, technique, ref):
    CLAIMS[pid] = dict(category=category, text=text, note=note, technique=technique, ref=ref)

exec(open(os.path.join(VERIF, "lib", "claims.py")).read())

ALL = ["C%02d" % i for i in range(1, 21)]
hooks = subprocess.run(["git", "-C", "/repo", "log", "--format=%H %s"], capture_output=True, text=True).stdout.splitlines()
hook_commits = [l.split()[0] for l in hooks if " verif hooks:" in l]
checks = []
for pid in ALL:
    if pid not in CLAIMS:
        continue
    c = CLAIMS[pid]
    checks.append(dict(
        property_id=pid,
        quick_cmd="./check %s --tier quick" % pid,
        thorough_cmd="./check %s --tier thorough" % pid,
        evidence_file="/verif/evidence/%s.json" % pid,
        replay_cmd_template="./check %s --replay {path}" % pid,
        engine="runtime-monitor",
        level_claimed=dict(category=c["category"], text=c["text"], design_ref=c["ref"]),
        level_note=c["note"],
        technique=c["technique"],
    ))
na = [dict(property_id=p, reason=NOT_APPLICABLE.get(p, "no check built yet in this round; see DESIGN.md for the plan")) for p in ALL if p not in CLAIMS]
m = dict(
    version=1,
    setup_cmd="./lib/setup.sh",
    hooks=dict(guard="verif", enable="go test -c -tags verif -overlay <generated> (the driver ./check does this for every run)",
               baseline_off_cmd="./lib/baseline_off.sh", source_commits=hook_commits, add_only=True),
    engines=[dict(name="runtime-monitor", path="/verif/check", serves_properties=sorted(CLAIMS),
                  kind_free_text="python driver + in-package Go harnesses overlaid on /repo's working tree: generated workloads, reference-model oracles over tapped events, Go race detector / checkptr, wait-state analysis of goroutine dumps")],
    checks=checks,
    notes="Every check rebuilds the test binary from /repo's current working tree (go test -c -tags verif -overlay). Exit 0 held / 1 VIOLATION / 2 inconclusive only. Known findings: /verif/known_findings.json.",
    not_applicable=na,
)
json.dump(m, open(os.path.join(VERIF, "MANIFEST.json"), "w"), indent=1)
print("MANIFEST.json: %d checks, %d not_applicable" % (len(checks), len(na)))
