#!/bin/bash
# Offline set-up: warm the Go build cache (plain and race-instrumented) by building
# every harness binary once from /repo's current tree.
export GOFLAGS=-mod=mod GOPROXY=off GOSUMDB=off GOTOOLCHAIN=local
cd "$(dirname "$0")/.." || exit 1
mkdir -p build work evidence replays
python3 - <<'PY'
import sys, os
sys.path.insert(0, "lib")
sys.argv = ["check"]
import importlib.machinery, importlib.util
loader = importlib.machinery.SourceFileLoader("check", "./check")
spec = importlib.util.spec_from_loader("check", loader)
chk = importlib.util.module_from_spec(spec); loader.exec_module(chk)
from props import PROPS
seen = set()
ok = True
for pid, cfg in PROPS.items():
    for race in sorted({bool(v) for v in cfg.get("race", {}).values()} | {False}):
        key = (cfg["pkg"], cfg["harness"], race)
        if key in seen:
            continue
        seen.add(key)
        if chk.build(pid, cfg, race) is None:
            ok = False
sys.exit(0 if ok else 1)
PY
