#!/bin/bash
# usage: lib/sweep.sh <tier> <seed>...   runs every claimed check at the given seeds and prints one line per run
tier=$1; shift
cd "$(dirname "$0")/.." || exit 1
./lib/setup.sh > /dev/null 2>&1
props=$(python3 -c "import json;print(' '.join(c['property_id'] for c in json.load(open('MANIFEST.json'))['checks']))")
bad=0
for seed in "$@"; do
  for p in $props; do
    out=$(./check $p --tier $tier --seed $seed 2>&1); rc=$?
    line=$(echo "$out" | grep -E "^$p tier=" | tail -1)
    echo "rc=$rc $line"
    if [ $rc -ne 0 ]; then bad=1; echo "$out" | grep -E "signature|detail:|INCONCLUSIVE" | cut -c1-600 | head -8; fi
  done
done
exit $bad
