#!/bin/bash
# usage: lib/confirm_seed.sh <srcdir with patch.diff, demo files, demo_cmd.txt, notes.md> <seed-id> <PROP>
# Confirms in a scratch worktree: builds, existing suite passes with the change, demo fails with it and passes
# without it. On success archives to /verif/seeded/<seed-id>/ with meta.json.
src=$1; id=$2; prop=$3
export GOFLAGS=-mod=mod GOPROXY=off GOSUMDB=off GOTOOLCHAIN=local
wt=/tmp/confirm-$id-$$
git -C /repo worktree add -q --detach $wt HEAD || exit 3
cleanup() { git -C /repo worktree remove --force $wt 2>/dev/null; rm -rf $wt; }
trap cleanup EXIT
cd $wt
git apply $src/patch.diff || { echo "CONFIRM-FAIL patch does not apply to HEAD"; exit 1; }
go build ./... || { echo "CONFIRM-FAIL build"; exit 1; }
run() { unshare -n bash -c "ip link set lo up; cd $wt; $1" ; }
run "go test -json -vet=off -count=1 -timeout 20m ./... > $wt/suite.json 2>/dev/null"
python3 - $wt/suite.json <<'PY' || { echo "CONFIRM-FAIL suite with change"; exit 1; }
import json,sys
passed=set()
for line in open(sys.argv[1]):
    try: e=json.loads(line)
    except Exception: continue
    t=e.get('Test')
    if t and '/' not in t and e.get('Action')=='pass': passed.add(e['Package']+'::'+t)
base=json.load(open('/root/.vp/BASELINE.json'))['stable_pass']
missing=[t for t in base if t not in passed]
print("suite with change: %d/%d baseline tests pass"%(len(base)-len(missing),len(base)), missing)
sys.exit(1 if missing else 0)
PY
rm -f suite.json
# demo files: everything except patch.diff/notes.md/demo_cmd.txt, copied relative to repo root (flat => root pkg unless path given in demo_dir.txt)
ddir=.
[ -f $src/demo_dir.txt ] && ddir=$(cat $src/demo_dir.txt)
for f in $src/*; do b=$(basename $f); case $b in patch.diff|notes.md|demo_cmd.txt|demo_dir.txt|meta.json) ;; *) cp -r $f $wt/$ddir/$b;; esac; done
cmd=$(cat $src/demo_cmd.txt)
run "timeout 600 $cmd" > $wt/demo_with.log 2>&1; rc_with=$?
git apply -R $src/patch.diff
run "timeout 600 $cmd" > $wt/demo_without.log 2>&1; rc_without=$?
echo "demo with change rc=$rc_with ; without change rc=$rc_without"
if [ $rc_with -eq 0 ] || [ $rc_without -ne 0 ]; then echo "CONFIRM-FAIL demo does not discriminate"; tail -5 $wt/demo_with.log $wt/demo_without.log; exit 1; fi
mkdir -p /verif/seeded/$id
for f in $src/*; do b=$(basename $f); [ "$b" = meta.json ] || cp -r $f /verif/seeded/$id/; done
python3 - "$id" "$prop" "$cmd" "$rc_with" "$rc_without" <<'PY'
import json,sys,os
id,prop,cmd,rw,rwo=sys.argv[1:]
notes=open('/verif/seeded/%s/notes.md'%id).read() if os.path.exists('/verif/seeded/%s/notes.md'%id) else ''
meta=dict(seed=id, breaks_property=prop, needs_to_manifest=notes[:1500],
          confirmed=dict(builds=True, existing_suite_passes_with_change=True, demo_cmd=cmd, demo_rc_with_change=int(rw), demo_rc_without_change=int(rwo),
                         how="scratch worktree of /repo HEAD under /tmp, network namespace, removed afterwards"),
          detected_by=[])
json.dump(meta, open('/verif/seeded/%s/meta.json'%id,'w'), indent=1)
PY
echo "CONFIRMED $id -> /verif/seeded/$id"
