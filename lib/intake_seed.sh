#!/bin/bash
# usage: lib/intake_seed.sh <PROP> [suffix-for-a suffix-for-b]   (default c d)
# Confirms /tmp/seedout-<PROP>/{a,b}, archives them as <PROP>-<suffix>, removes the scratch worktree, runs the matrix.
id=$1; sa=${2:-c}; sb=${3:-d}
cd /verif
ok=""
for pair in a:$sa b:$sb; do x=${pair%%:*}; y=${pair##*:}
  if [ -f /tmp/seedout-$id/$x/patch.diff ]; then
    if ./lib/confirm_seed.sh /tmp/seedout-$id/$x $id-$y $id 2>&1 | tail -1 | grep -q CONFIRMED; then ok="$ok $id-$y"; echo "confirmed $id-$y"; else echo "NOT confirmed $id-$x (kept in /tmp/seedout-$id/$x)"; keep=1; fi
  fi
done
git -C /repo worktree remove --force /tmp/seed-$id 2>/dev/null
[ -z "$keep" ] && rm -rf /tmp/seedout-$id
[ -n "$ok" ] && python3 lib/seed_matrix.py $ok 2>&1 | tail -3
