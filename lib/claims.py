# Table of claimed properties (exec'd by mkmanifest.py).
NOT_APPLICABLE = {}

claim("C01", "exploration",
      "Runs the real PrepareRun/ProcessSegments on generated multi-channel streams cut into hostile block partitions under every trigger family (edge, level, auto, edge-multi, group) and compares every record seen on the shared publish channel with the ground-truth excerpt, frame, time and labels. Held on the cases listed in the evidence file; exploration is the right level because the quantifier (all streams x partitions x configurations) is unbounded and only sampled.",
      "Trusts the Go runtime, the harness's ground truth bookkeeping, and that the shared publish channel carries every record (it is the only sink the processors have besides the file writers, which C05/C06 cover). Decimation is not reachable by control requests and not exercised.",
      "reference-excerpt oracle over records tapped at the publish channel; generated streams/partitions", "DESIGN.md §3 C01")
claim("C02", "exploration",
      "Independent criterion scan of the ground truth per configuration epoch: soundness of every primary, edge completeness with one-record dead time, level completeness within one record, no overlap for edge-only epochs, auto gap bound; epochs start from restored settings or ChangeTriggerState and are separated by reconfigurations (new settings, ConfigurePulseLengths same/changed).",
      "Decidable domain per epoch as stated in the evidence assumptions; samples in the undecided tail of an epoch are exempt. Oracle written from the statement, not from the code.",
      "independent reference scan + per-epoch completeness/soundness oracle over tapped records", "DESIGN.md §3 C02")
claim("C08", "exploration",
      "Metamorphic: the same stream through the real pipeline as one block and as a random partition must give identical edge-multi record lists; plus structural invariants (order, lengths, non-overlap, excerpt, trigger within one sample of a qualifying edge) and crash detection with edges planted on the first searchable sample after start and after reconfigurations.",
      "The one-block run is the reference for the partitioned run; structural checks are independent. A process crash is attributed to the journaled case.",
      "metamorphic one-block-vs-partition comparison + structural invariants; crash journal", "DESIGN.md §3 C08")
claim("C09", "exploration",
      "Histories of add/delete/stop/err-fb-coupling edits with valid, repeated, self and out-of-range indices interleaved with blocks whose primaries are planted at globally unique frames: after each edit the reported connection state is compared with a set model, after each block each receiver's multiset of secondaries with the union of its model sources' primaries, and each secondary's samples with the receiver's own stream.",
      "Primaries are identified by construction (unique planted frames), so the histories are unambiguous. Connection edits are applied through the source methods the RPC layer calls (ChangeGroupTrigger, StopTriggerCoupling, SetCoupling).",
      "set-model + multiset-conservation oracle over tapped records and reported state", "DESIGN.md §3 C09")

claim("C12", "exploration",
      "Real NewPhaseUnwrapper/UnwrapInPlace on generated 16-bit sequences under the Abaco (16/4) and Roach (14/2) option sets and random ones; outputs are checked for congruence modulo the quantum, step bounds between resets, equality with an integer model of the statement, and independence of the split into calls (incl. empty and one-sample calls).",
      "The integer model is the statement made executable; offsets that differ by 2^16 are the same offset (the output is 16 bit). fractionBits-drop is kept <= 14 (every caller uses 12).",
      "reference integer model + split-invariance (metamorphic) over generated sequences", "DESIGN.md §3 C12")
claim("C13", "exploration",
      "Real AnalyzeData on generated records (signed/unsigned, extreme contents, npre 3..1000, with and without projectors/basis) compared with exact-rational / 300-bit references of each definition; the float32 fields of the summary message are decoded and compared too.",
      "Tolerance 1e-9 x the largest magnitude entering a sum (never tighter than double arithmetic of these formulas allows); peak value uses the code's documented convention (>= 0).",
      "math/big reference oracle over generated records", "DESIGN.md §3 C13")
claim("C14", "exploration",
      "Every generated record is encoded by the real builders and also sent through the real PUB sockets to ZMQ SUB sockets; an independent encoding/binary decoder at the documented offsets must recover every field bit for bit (incl. NaN/Inf), and a subscriber filtered on a 2-byte channel prefix must get all and only that channel's messages. Thorough runs under the race detector (checkptr on the unsafe slice conversions).",
      "Trusts libzmq's in-order delivery on one connection and the document's table (48-byte summary header).",
      "independent decoder over messages observed on a real ZMQ SUB socket; checkptr in thorough", "DESIGN.md §3 C14")

claim("C15", "exploration",
      "Deterministic generator pass in package packets: random bytes, hand-assembled headers with every TLV type (shape without format, empty/multi-type/unknown formats, bad sizes, truncation), mutations of the repository's captured packets and of constructor-built packets go through ReadPacket and every accessor (a panic is a violation; consumed bytes are counted); constructor-built packets (16/32/64 bit, 1-4 dims, offsets, sequence numbers, timestamps) must round-trip. Thorough runs the same pass under the race build (checkptr).",
      "Generator-driven, not coverage-guided (native Go fuzzing is not wired in); timestamp rates are positive and finite.",
      "totality + round-trip oracle over generated/mutated inputs; checkptr in thorough", "DESIGN.md §3 C15")
claim("C18", "exploration",
      "Histories of Write/Read/ReadMultipleOf/ReadAll/DiscardStride on a real shared-memory ring (separate writer and reader handles), sizes 2..4096, operation sizes around the full/empty boundaries; every byte identifies its stream position and reads are compared with a reference byte queue (no skip, repeat, reorder; multiples; stride boundary; pointer never moves backwards).",
      "Single-threaded histories (the property is about sequences of calls); chunk/stride 0 is outside the API domain. Thorough runs under the race build (checkptr on the mmap descriptor).",
      "reference byte-queue oracle over recorded operation histories; checkptr in thorough", "DESIGN.md §3 C18")

claim("C05", "exploration",
      "After every STOP each LJH2.2/LJH3/OFF file produced through the real WriteControl/PublishData path (random geometry, identity, sub-frame parameters, projector subsets, pause/unpause, 1-3 records per channel and block) is parsed by decoders written from the format documents and compared with the channel's true parameters and the exact sequence of records accepted while active and unpaused; the writers' public API is also driven directly with extreme lengths, frame counts, timestamps and floats. File size must equal header plus whole records.",
      "The independent decoders are the trusted base. The LJH3 first-rising field may be presamples or presamples+1. Disk-stall behaviour is C07's subject.",
      "independent format decoders over bytes on disk vs. records tapped at the publish channel", "DESIGN.md §3 C05")
claim("C06", "exploration",
      "Histories of START (all type subsets)/STOP/PAUSE/UNPAUSE/labelled and malformed requests, biased to redundant and illegal orders, interleaved with record-producing blocks: reply class and reported state are compared with an executable state machine after every request; directories must be newly created and consecutively numbered; after STOP files are decoded and must hold exactly the records published while the model said active and unpaused, for every enabled type and eligible channel; /proc/self/fd must show nothing open below the directory.",
      "The state machine is written from the statement; PAUSE/UNPAUSE while inactive are accepted flag changes. Requests are applied through AnySource.WriteControl (what the RPC layer queues).",
      "executable state-machine model + decoded file contents + /proc/self/fd census", "DESIGN.md §3 C06")
claim("C20", "exploration",
      "Histories mixing blocks that carry external-trigger counts and drop counts with START/STOP/PAUSE/UNPAUSE/label requests over several sessions; after each STOP the external-trigger, data-drop and experiment-state files are parsed and compared with the harness's event log (exactly once, in order, nothing from inactive periods or earlier sessions, START first and STOP last with monotone timestamps, nothing left open).",
      "The event log kept by the harness is the reference; pause does not suspend the run log (the statement says 'while writing is active').",
      "event-log vs file-content oracle (exactly-once, ordering) over recorded histories", "DESIGN.md §3 C20")

claim("C07", "fault_enumeration",
      "The fault is a disk that stalls at a scripted point. Layer 1 runs asyncbufio.Writer (depths 1..64 and the real 1000) over a gated writer and checks at every Flush/Close return that the sink holds exactly the accepted payloads in order. Layer 2 points real LJH2.2/LJH3/OFF writers at a 4 KiB named pipe that is not drained until the scripted moment, forcing the 1000-entry queue to fill and reject; the byte stream is decoded and must be header + exactly the records whose WriteRecord returned nil, whole and in order, and complete when Flush returned.",
      "Stall points are enumerated over (writer type x record size x stalled-from x released-when); within a stall the interleaving of producer and writer goroutine is left to the scheduler. Linux pipe semantics stand in for the disk.",
      "fault injection (gated writer / undrained FIFO) + FIFO/atomicity oracle over unique ids", "DESIGN.md §3 C07")

claim("C03", "exploration",
      "The real Start/Sample/PrepareChannels/StartRun/readerMainLoop/getNextBlock/CoreLoop pipeline runs against scripted PacketProducers (packets built by the public constructors and passed through Bytes()/ReadPacket): 1-4 channel groups on 1-3 producers, 1-32 frames per packet, int16/int32 payloads, per-group sequence-number bases, loss patterns (isolated, bursts, long runs, first packets, dense) and per-tick batching with empty ticks and lagging groups. Every sample value encodes (channel, global frame); every block handed to ProcessSegments is compared with the per-channel reference stream (delivered samples in order, frames-per-packet filler per lost packet), equal lengths on all channels, contiguous frame numbers, and the dropped-frame total with the frames filled in. Each script is executed 3-6 times because the reader iterates a Go map.",
      "Scripted producers stand in for UDP/ring hardware and implement the repository's PacketProducer interface. Equal frames per packet in all groups, timestamps present, run continues the sequence numbers seen while sampling. Filler values unconstrained; progress is judged on a logical clock (reader ticks), not wall time.",
      "reference-stream + conservation oracle over blocks tapped at ProcessSegments; scripted packet producers with loss/lag injection", "DESIGN.md §3 C03")

claim("C19", "exploration",
      "Source configurations are generated around the acceptance boundaries and pushed through the real numbering code: Lancero with 1-4 cards (any device numbers/order, equal or mixed row counts, columns 1-8), first-row numbers incl. 0/negative, card and column separations negative/0/one-too-small/exact/large, on fresh and on re-used source objects (PrepareChannels); Abaco group layouts adjacent/spaced/overlapping by one or several channels/nested via scripted packets (Sample + PrepareChannels); Triangle/SimPulse/Roach/AnySource defaults. For every accepted configuration the identity tables must have pairwise distinct names, partners sharing one number, no number collision, reported groups covering exactly the numbers in use, row/column codes equal to the true geometry; for a sample, LJH2.2+LJH3 writing is started, one record per stream written, and the directory must hold one file per stream whose header identity equals the reported identity.",
      "Outcome-based: a colliding configuration that is accepted is observed as a collision; rejecting a collision-free configuration is not flagged. Device geometry is set directly in-package (what card sampling would determine); the full Start path with a scripted card is exercised by C04/C10.",
      "uniqueness/consistency predicates over identity tables after the real PrepareChannels/Sample, plus decoded file headers", "DESIGN.md §3 C19")

claim("C04", "exploration",
      "The real Start (sampleCard, PrepareChannels, PrepareRun, StartRun alignment), reader goroutine, distributeData and CoreLoop run against a scripted in-memory card implementing lancero.Lanceroer: device numbers 0/1/3, 2-32 rows, 1-8 columns, frame bit on row 0, per-row external-trigger flag identical across columns, every word a function of (frame,row,col); the byte stream is chopped into scripted driver reads (less than 3 frames, not frame-aligned, exact multiples, hundreds of frames); 0-4 mix changes (0, fractional, negative, +-1000 for saturation) go through ConfigureMixFraction at chosen block counts; every third case removes word-aligned byte runs (4 bytes to 3 frames, every word offset within the first unreleased frame). Every block handed to ProcessSegments is decoded: each emitted frame must be a whole card frame in the column-major error/feedback channels, consecutive unless bytes were lost; feedback = previous feedback word with flag bits cleared + scale x signed error, saturated, under one mix setting per block consistent with the times of the changes; external-trigger counts = frame*rows+row of every rising edge of the flag in (frame,row) order; frame numbers never overlap; an alignment-breaking loss is reported by the block that re-aligned; the card's release accounting is never exceeded.",
      "The scripted card stands in for the hardware and the driver. Assumptions listed in the evidence file: whole 32-bit words, one card per source, rows >= 2, Wait() returns with at least 4 frames available, lost bytes lie within the first frame of the unreleased data, whole-frame losses need not be reported, mix rounding accepted within 0.5.",
      "reference demux/mix/external-trigger model over blocks tapped at ProcessSegments; scripted card with chunking and byte-loss injection", "DESIGN.md §3 C04")
