#!/usr/bin/env python3
"""Runs every archived seeded change (/verif/seeded/*/patch.diff) against the quick check of the property
it breaks (and any extra properties given in meta['also_run']); records which signatures fired in meta.json
and prints a table. /repo must be clean; every patch is undone straight after its run."""
import json, os, subprocess, sys, glob, re
V = "/verif"
# SEED_REPO: the tree the patches are applied to. With a scratch worktree (not /repo) the matrix can run next to
# other checks: it then uses its own build and evidence directories.
R = os.environ.get("SEED_REPO", "/repo")
ENV = dict(os.environ, VERIF_EVIDENCE_DIR=V + "/work/seed_evidence")  # evidence of runs on changed trees is not kept
BUILD = V + "/build"
if R != "/repo":
    BUILD = V + "/build_" + os.path.basename(R.rstrip("/"))
    ENV.update(VERIF_REPO=R, VERIF_BUILD=BUILD, VERIF_EVIDENCE_DIR=V + "/work/seed_evidence_" + os.path.basename(R.rstrip("/")))
only = sys.argv[1:]
rows = []
if R != "/repo":
    import shutil
    snap = BUILD + "/harness_snapshot"
    shutil.rmtree(snap, ignore_errors=True)
    shutil.copytree(V + "/harness", snap)
    ENV["VERIF_HARNESS"] = snap
    if not os.path.isdir(R):
        subprocess.run(["git", "-C", "/repo", "worktree", "add", "-q", "--detach", R, "HEAD"], check=True)
    head = subprocess.run(["git", "-C", "/repo", "rev-parse", "HEAD"], capture_output=True, text=True).stdout.strip()
    subprocess.run(["git", "-C", R, "checkout", "-q", "--detach", head], check=True)
for meta_path in sorted(glob.glob(V + "/seeded/*/meta.json")):
    d = os.path.dirname(meta_path)
    meta = json.load(open(meta_path))
    sid = meta["seed"]
    if only and sid not in only and meta["breaks_property"] not in only:
        continue
    if subprocess.run(["git", "-C", R, "status", "--porcelain", "--untracked-files=no"], capture_output=True, text=True).stdout.strip():
        print(R + " not clean"); sys.exit(3)
    props = [meta["breaks_property"]] + meta.get("also_run", [])
    if subprocess.run(["git", "-C", R, "apply", d + "/patch.diff"]).returncode != 0:
        rows.append((sid, "patch no longer applies", "")); continue
    det = []
    try:
        for p in props:
            try:
                r = subprocess.run(["timeout", "-k", "30", "2400", "./check", p, "--tier", "quick"], cwd=V, env=ENV, capture_output=True, text=True)
                sigs = sorted(set(re.findall(r"^  signature: (.*)$", r.stdout, re.M)))
                det.append(dict(check=p, tier="quick", exit=r.returncode, signatures=sigs[:6]))
            finally:
                subprocess.run(["pkill", "-9", "-f", "^" + BUILD + "/.*[.]test"])  # orphans of a timed-out check (not those of background sweeps, which live elsewhere)
    finally:
        subprocess.run(["git", "-C", R, "checkout", "--", "."])
        if R != "/repo":
            subprocess.run(["git", "-C", R, "clean", "-fdq"])  # files a patch added (scratch worktrees only)
    meta["detected_by"] = det
    json.dump(meta, open(meta_path, "w"), indent=1)
    rows.append((sid, "; ".join("%s rc=%d" % (x["check"], x["exit"]) for x in det), "; ".join(s for x in det for s in x["signatures"][:2])))
for r in rows:
    print("%-8s %-24s %s" % r)
