# Per-property driver configuration: which package the harness lives in, whether the
# race detector is on per tier, shard counts and shard time-outs.
def P(pkg=".", harness="dastard", race=None, shards=None, shard_timeout=None, gomaxprocs=None, level="exploration", max_restarts=40, fuzz=None, extra_bin=None, asan=False):
    d = dict(pkg=pkg, harness=harness, level=level, max_restarts=max_restarts)
    d["race"] = race or {}
    d["shards"] = shards or {}
    d["shard_timeout"] = shard_timeout or {"quick": 600, "thorough": 3000}
    if gomaxprocs:
        d["gomaxprocs"] = gomaxprocs
    if fuzz:
        d["fuzz"] = fuzz
    if extra_bin:
        d["extra_bin"] = extra_bin
    if asan:
        d["asan"] = True  # thorough tier: the quick case list once more under go test -asan
    return d

PROPS = {
    "C01": P(gomaxprocs=[1, 2, 4, 4]),
    "C02": P(gomaxprocs=[1, 2, 4, 4]),
    "C03": P(shards={"quick": 16, "thorough": 16}, asan=True),
    "C19": P(),
    "C04": P(),
    "C17": P(race={"quick": True, "thorough": True}, shards={"quick": 6, "thorough": 12}, gomaxprocs=[4, 2, 8, 16, 3, 6], shard_timeout={"quick": 900, "thorough": 3000}),
    "C11": P(shard_timeout={"quick": 900, "thorough": 3000}, max_restarts=400),
    "C10": P(shard_timeout={"quick": 1200, "thorough": 3000}),
    "C16": P(shards={"quick": 8, "thorough": 16}, level="fault_enumeration", extra_bin="./cmd/dastard"),
    "C05": P(asan=True, gomaxprocs=[1, 2, 4, 4]),
    "C06": P(gomaxprocs=[1, 2, 4, 4]),
    "C20": P(gomaxprocs=[1, 2, 4, 4]),
    "C07": P(level="fault_enumeration"),
    "C08": P(gomaxprocs=[1, 2, 4, 4]),
    "C09": P(gomaxprocs=[1, 2, 4, 4]),
    "C12": P(),
    "C13": P(),
    "C14": P(race={"thorough": True}, asan=True),
    "C15": P(pkg="packets", harness="packets", race={"thorough": True}, fuzz="FuzzVerifPacket", asan=True),
    "C18": P(pkg="ringbuffer", harness="ringbuffer", race={"thorough": True}, asan=True),
}
