#!/bin/bash
# usage: lib/try_seed.sh <patch.diff> <PROP> [tier]   -- apply a seeded change to /repo, run the check, undo.
patch=$1; prop=$2; tier=${3:-quick}
cd /verif
if [ -n "$(git -C /repo status --porcelain --untracked-files=no)" ]; then echo "/repo not clean"; exit 3; fi
git -C /repo apply "$patch" || { echo "patch does not apply"; exit 3; }
./check $prop --tier $tier > /tmp/try_seed.$$.log 2>&1; rc=$?
git -C /repo checkout -- .
grep -E "signature|VIOLATION|HELD|INCONCLUSIVE|tier=" /tmp/try_seed.$$.log | head -12
echo "rc=$rc"
cp evidence/$prop.json /tmp/last_seed_evidence.json 2>/dev/null
rm -f /tmp/try_seed.$$.log
exit $rc
