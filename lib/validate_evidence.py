#!/usr/bin/env python3
"""Validates /verif/evidence/*.json and MANIFEST.json against the schemas in /root/.vp (if jsonschema is available)."""
import json, glob, sys, os
try:
    import jsonschema
except Exception:
    sys.path.insert(0, "/opt/veriftools/pyvenv/lib/python3.11/site-packages")
    import jsonschema
ok = True
es = json.load(open("/root/.vp/EVIDENCE.schema.json"))
for f in sorted(glob.glob("/verif/evidence/*.json")):
    try:
        jsonschema.validate(json.load(open(f)), es)
    except Exception as e:
        ok = False
        print("INVALID", f, str(e)[:300])
ms = json.load(open("/root/.vp/MANIFEST.schema.json"))
try:
    jsonschema.validate(json.load(open("/verif/MANIFEST.json")), ms)
except Exception as e:
    ok = False
    print("INVALID MANIFEST", str(e)[:300])
print("valid" if ok else "PROBLEMS")
sys.exit(0 if ok else 1)
