import json,sys
pid=sys.argv[1]
prop=open('/tmp/seedout-%s/property.json'%pid).read()
print(f"""You are helping to test a verification effort for the Go project usnistgov/dastard (a NIST data-acquisition server for TES microcalorimeters). You have your own scratch git worktree of the repository at /tmp/seed-{pid} (work ONLY there and in /tmp/seedout-{pid}; never touch /repo or /verif, and do not read anything under /verif).

Here is one semantic property that the project is supposed to satisfy:

{prop}

Your task: produce TWO different, independent changes (call them "a" and "b") to the NON-test Go source of the project, each of which BREAKS this property while (1) still compiling (`go build ./...`), and (2) still passing the project's existing test suite. Each change should look like a plausible, realistic regression (a refactor slip, a wrong "optimisation", an off-by-one, a dropped lock/flush, a reordered pair of statements, a missing validation branch, two cooperating sites that each look fine alone) -- not sabotage that ordinary use would expose at once. Prefer changes that need something SPECIFIC to manifest: a particular interleaving, a crash or fault at a particular point, a multi-step sequence of operations, an unusual input or configuration. The two changes should break different parts/mechanisms of the property and touch different code where possible. Do not edit any existing *_test.go file, and do not touch files named hooks_verif.go / hooks_noverif.go or calls to verifPoint/verifSpan/verifDuration (those are inert instrumentation).

Environment rules (the sandbox has no network): prefix every go command with
  export GOFLAGS=-mod=mod GOPROXY=off GOSUMDB=off GOTOOLCHAIN=local
Existing suite: `cd /tmp/seed-{pid} && go test -vet=off -count=1 -timeout 20m ./...` . NOTE: two tests, TestWriteControl and TestWritingFiles in the root package, ALWAYS fail in this sandbox (it runs as root) even on the unchanged tree -- ignore those two; every other test must pass with your change applied. The root package's tests bind fixed TCP ports 5500-5504 and other people share this machine, so ALWAYS run go test inside a private network namespace: `unshare -n bash -c 'ip link set lo up; cd /tmp/seed-{pid}; export GOFLAGS=-mod=mod GOPROXY=off GOSUMDB=off GOTOOLCHAIN=local; go test ...'` (this also applies to demo_cmd runs; demo_cmd.txt itself holds just the plain go test command).

For each change X in {{a,b}} write into /tmp/seedout-{pid}/X/ :
  - patch.diff : `git diff` of ONLY the source change (relative to the worktree's HEAD, applies with `git apply` at the repo root). Do not include the demonstration in the patch.
  - a demonstration: one NEW Go test file named zz_demo_test.go (in the package it tests; test function name starting with TestZZDemo) that FAILS with the change applied and PASSES on the unchanged tree. It must be deterministic enough to discriminate reliably (run it 3 times each way). It may use unexported identifiers (it is in-package). If the demo belongs in a sub-package directory (e.g. ljh/, off/, asyncbufio/, packets/), also write demo_dir.txt containing that directory relative to the repo root (e.g. `ljh`); otherwise it is copied to the repo root.
  - demo_cmd.txt : the exact single-line command, run from the repo root, that runs only the demonstration, e.g. `go test -vet=off -count=1 -run 'TestZZDemo' .`  (or `./ljh`).
  - notes.md : what the change is, which part of the property it breaks, and exactly what is needed for it to manifest (inputs / sequence / timing).

Procedure for each change: make the edit in the worktree; build; run the full existing suite and confirm only the two always-failing tests fail; add the demo test and confirm it fails; `git stash`/revert the source edit and confirm the demo passes on the unchanged tree; save the files; then restore the worktree to a clean HEAD state (git checkout -- . ; remove the demo file) before starting the next change. At the end leave the worktree clean, and reply with a short summary (for each change: one paragraph on what it is, what it needs to manifest, and the results of your confirmation runs). If after serious effort you can only produce one valid change, deliver that one and say so.""")
