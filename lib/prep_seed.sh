#!/bin/bash
# usage: lib/prep_seed.sh <PROP>  -> creates /tmp/seed-<PROP> worktree and /tmp/seedout-<PROP>/property.json, prints the sub-agent prompt
id=$1
cd /verif
mkdir -p /tmp/seedout-$id
python3 - "$id" <<'PY'
import json,sys
pid=sys.argv[1]
for l in open('/verif/properties.jsonl'):
    p=json.loads(l)
    if p['id']==pid:
        open('/tmp/seedout-%s/property.json'%pid,'w').write(json.dumps(p,indent=1))
PY
git -C /repo worktree remove --force /tmp/seed-$id 2>/dev/null
git -C /repo worktree add -q --detach /tmp/seed-$id HEAD
python3 lib/seed_prompt.py $id
echo
echo "Earlier helpers already delivered the following changes for this property; yours must be DIFFERENT in mechanism and code location from all of these (do not re-deliver variations of them):"
for d in seeded/$id-*; do python3 - "$d" <<'PY'
import json,sys
m=json.load(open(sys.argv[1]+'/meta.json'))
t=m.get('needs_to_manifest','').replace('\n',' ')
print(' - '+t[:420])
PY
done
