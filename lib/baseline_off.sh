#!/bin/bash
# Runs the repository's own test suite with the verif build tag OFF and checks
# that every test of the stable baseline (/root/.vp/BASELINE.json, if present) passes.
export GOFLAGS=-mod=mod GOPROXY=off GOSUMDB=off GOTOOLCHAIN=local
OUT=$(mktemp -d /verif/work/baseline.XXXXXX)
trap 'rm -rf "$OUT"' EXIT
cd /repo || exit 2
go test -json -vet=off -count=1 -timeout 25m ./... > "$OUT/test.json" 2> "$OUT/test.err"
python3 - "$OUT/test.json" <<'PY'
import json,sys,os
passed=set(); failed=set()
for line in open(sys.argv[1]):
    try: e=json.loads(line)
    except Exception: continue
    t=e.get('Test'); 
    if not t or '/' in t: continue
    k=e['Package']+'::'+t
    if e.get('Action')=='pass': passed.add(k)
    elif e.get('Action')=='fail': failed.add(k)
base=None
try: base=json.load(open('/root/.vp/BASELINE.json'))['stable_pass']
except Exception: pass
if base is None:
    print(f"passed={len(passed)} failed={len(failed)} (no baseline file to compare)"); sys.exit(0)
missing=[t for t in base if t not in passed]
print(f"baseline={len(base)} passed_of_baseline={len(base)-len(missing)} other_failed={sorted(failed-set(base))}")
if missing:
    print("MISSING:", missing); sys.exit(1)
PY
