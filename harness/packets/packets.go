package PKGNAME

// C15: packet decoding is total and inverse to encoding.
// Deterministic generator pass: (1) arbitrary / structured-mutated byte strings through
// ReadPacket and every accessor; (2) round trip of packets built with the public constructors.

import (
	"bytes"
	"encoding/binary"
	"fmt"
	"math/rand"
	"os"
	"path/filepath"
	"reflect"
	"testing"
)

type vCountingReader struct {
	r *bytes.Reader
	n int
}

func (c *vCountingReader) Read(p []byte) (int, error) {
	k, err := c.r.Read(p)
	c.n += k
	return k, err
}

var vSeedPackets [][]byte
var vInputFile *os.File

func vLoadSeedPackets() {
	// the two captured files of the repository
	for _, name := range []string{"test1.bin", "timer_packets.bin"} {
		b, err := os.ReadFile(filepath.Join(os.Getenv("VERIF_REPO"), "testData", name))
		if err != nil {
			continue
		}
		// split at the magic number (header byte 4..7)
		magic := []byte{0x81, 0x0b, 0x00, 0xff}
		idx := 0
		for {
			j := bytes.Index(b[idx+8:], magic)
			if j < 0 {
				vSeedPackets = append(vSeedPackets, b[idx:])
				break
			}
			next := idx + 8 + j - 4
			vSeedPackets = append(vSeedPackets, b[idx:next])
			idx = next
			if len(vSeedPackets) > 400 {
				break
			}
		}
	}
}

func vTLV(t byte, body []byte) []byte {
	n := (2 + len(body) + 7) / 8
	out := make([]byte, 8*n)
	out[0] = t
	out[1] = byte(n)
	copy(out[2:], body)
	return out
}

// vHandPacket assembles a header + TLVs + payload by hand (independent of Bytes()).
func vHandPacket(r *rand.Rand) []byte {
	var tlvs []byte
	ntlv := r.Intn(5)
	for i := 0; i < ntlv; i++ {
		switch r.Intn(9) {
		case 0: // shape
			body := make([]byte, 6)
			for k := 0; k < 3; k++ {
				binary.BigEndian.PutUint16(body[2*k:], uint16(vPick(r, 0, 1, 2, 8, 64, -1, 300)))
			}
			tlvs = append(tlvs, vTLV(0x22, body)...)
		case 1: // format
			f := vPick(r, "<h", ">h", "<i", "!i", "<q", ">q", "<", "", "<hh", ">IIQ", "<x", "<b", "B", "<HHi", "hq", "<L", "<Q")
			body := make([]byte, 6)
			copy(body, f)
			tlvs = append(tlvs, vTLV(0x21, body)...)
		case 2: // channel offset
			body := make([]byte, 6)
			binary.BigEndian.PutUint16(body, uint16(vPick(r, 0, 0, 0, 1)))
			binary.BigEndian.PutUint32(body[2:], r.Uint32())
			tlvs = append(tlvs, vTLV(0x23, body)...)
		case 3: // timestamp with unit
			body := make([]byte, 14)
			body[0] = byte(vPick(r, 64, 48, 0, 65, 255))
			body[1] = byte(vPick(r, -9, -11, 0, 127, -128))
			binary.BigEndian.PutUint16(body[2:], uint16(vPick(r, 0, 1, 8, 65535)))
			binary.BigEndian.PutUint16(body[4:], uint16(vPick(r, 0, 1, 2)))
			binary.BigEndian.PutUint64(body[6:], r.Uint64())
			if vChance(r, 0.2) {
				body = body[:6]
			}
			tlvs = append(tlvs, vTLV(0x13, body)...)
		case 4: // plain timestamp
			body := make([]byte, 6)
			r.Read(body)
			tlvs = append(tlvs, vTLV(0x11, body)...)
		case 5: // payload label
			lab := vPick(r, "value,active,t", "x", "")
			body := make([]byte, 14)
			copy(body, lab)
			tlvs = append(tlvs, vTLV(0x29, body[:vPick(r, 6, 14)])...)
		case 6: // counter
			body := make([]byte, vPick(r, 6, 14))
			tlvs = append(tlvs, vTLV(0x12, body)...)
		case 7: // tag
			body := make([]byte, 6)
			body[1] = byte(vPick(r, 0, 0, 1))
			tlvs = append(tlvs, vTLV(0x09, body)...)
		case 8: // unknown / broken length
			t := vTLV(byte(r.Intn(256)), make([]byte, 6))
			t[1] = byte(vPick(r, 0, 1, 2, 200))
			tlvs = append(tlvs, t...)
		}
	}
	payload := make([]byte, vPick(r, 0, 1, 2, 3, 8, 16, 64, 100, 1024))
	r.Read(payload)
	hdr := make([]byte, 16)
	hdr[0] = byte(r.Intn(256))
	hl := 16 + len(tlvs)
	hdr[1] = byte(hl)
	if vChance(r, 0.1) {
		hdr[1] = byte(vPick(r, 0, 8, 15, 16, 24, 255))
	}
	if vChance(r, 0.04) {
		// a header length below the 16 fixed bytes, followed by enough well-formed TLV bytes for any reading of that length byte
		// as a large number (one TLV of an unknown type, 30-32 words long)
		hdr[1] = byte(vPick(r, 0, 8, 1, 12))
		n := vPick(r, 30, 31, 32)
		body := make([]byte, 8*n-2)
		r.Read(body)
		tlvs = vTLV(byte(vPick(r, 0x7f, 0x55, 0xee)), body)
	}
	pl := len(payload)
	if vChance(r, 0.15) {
		pl = vPick(r, 0, 1, len(payload)+1, 65535, len(payload)/2)
	}
	binary.BigEndian.PutUint16(hdr[2:], uint16(pl))
	binary.BigEndian.PutUint32(hdr[4:], 0x810b00ff)
	if vChance(r, 0.03) {
		hdr[4+r.Intn(4)] ^= 1
	}
	binary.BigEndian.PutUint32(hdr[8:], r.Uint32())
	binary.BigEndian.PutUint32(hdr[12:], r.Uint32())
	out := append(append(hdr, tlvs...), payload...)
	if vChance(r, 0.1) && len(out) > 0 {
		out = out[:r.Intn(len(out))]
	}
	return out
}

func vMutate(r *rand.Rand, b []byte) []byte {
	out := append([]byte(nil), b...)
	if len(out) == 0 {
		return out
	}
	n := 1 + r.Intn(4)
	for i := 0; i < n; i++ {
		switch r.Intn(5) {
		case 0:
			out[r.Intn(len(out))] ^= byte(1 << r.Intn(8))
		case 1: // bias towards the header
			out[r.Intn(vMinI(len(out), 64))] = byte(r.Intn(256))
		case 2:
			out = out[:r.Intn(len(out)+1)]
			if len(out) == 0 {
				return out
			}
		case 3:
			k := r.Intn(vMinI(len(out), 64))
			out[k] = byte(vPick(r, 0, 1, 0x21, 0x22, 0x23, 0x13, 0x29, 0xff))
		case 4:
			out = append(out, byte(r.Intn(256)))
		}
	}
	return out
}

func vMinI(a, b int) int {
	if a < b {
		return a
	}
	return b
}

// vExerciseDecoded calls every accessor of a decoded packet and checks consistency.
func vExerciseDecoded(c *vCase, p *Packet, consumed int) bool {
	if consumed > int(p.headerLength)+int(p.payloadLength) {
		c.Violate("c15:overconsumed", "decoding consumed %d bytes, header declares %d+%d", consumed, p.headerLength, p.payloadLength)
		return false
	}
	if p.Length() != int(p.headerLength)+int(p.payloadLength) {
		c.Violate("c15:length", "Length()=%d but header declares %d+%d", p.Length(), p.headerLength, p.payloadLength)
		return false
	}
	frames := p.Frames()
	nchan, _ := p.ChannelInfo()
	_ = p.Timestamp()
	_ = p.IsExternalTrigger()
	_ = p.String()
	_ = p.SequenceNumber()
	if frames < 0 || nchan < 1 {
		c.Violate("c15:sizes", "Frames()=%d ChannelInfo nchan=%d", frames, nchan)
		return false
	}
	for _, s := range []int{-1, 0, 1, frames - 1, frames, frames + 5} {
		_ = p.ReadValue(s)
	}
	var words int
	wordlen := 0
	switch d := p.Data.(type) {
	case []int16:
		words, wordlen = len(d), 2
	case []int32:
		words, wordlen = len(d), 4
	case []int64:
		words, wordlen = len(d), 8
	case []byte:
		words, wordlen = len(d), 1
	case nil:
	default:
		c.Violate("c15:datatype", "payload of unexpected type %T", p.Data)
		return false
	}
	if words*wordlen > int(p.payloadLength) {
		c.Violate("c15:payload-size", "decoded payload has %d bytes, header declares %d", words*wordlen, p.payloadLength)
		return false
	}
	if wordlen > 1 && frames*nchan > words {
		c.Violate("c15:frames", "Frames()=%d x %d channels exceeds the %d decoded samples", frames, nchan, words)
		return false
	}
	pp := p.MakePretendPacket(p.SequenceNumber()+1, nchan)
	if pp == nil {
		c.Violate("c15:pretend-nil", "MakePretendPacket returned nil")
		return false
	}
	if pp.Frames() != frames || pp.Length() != p.Length() || pp.SequenceNumber() != p.SequenceNumber()+1 {
		c.Violate("c15:pretend-shape", "filler packet frames/length/seq %d/%d/%d, original %d/%d/%d+1", pp.Frames(), pp.Length(), pp.SequenceNumber(), frames, p.Length(), p.SequenceNumber())
		return false
	}
	n2, o2 := pp.ChannelInfo()
	_, o1 := p.ChannelInfo()
	if n2 != nchan || o2 != o1 {
		c.Violate("c15:pretend-channels", "filler packet channel info differs")
		return false
	}
	if p.Data != nil && reflect.TypeOf(pp.Data) != reflect.TypeOf(p.Data) {
		c.Violate("c15:pretend-type", "filler payload type %T, original %T", pp.Data, p.Data)
		return false
	}
	c.Cov("decoded_ok", 1)
	if frames > 0 {
		c.Cov("decoded_with_frames", 1)
	}
	return true
}

func vDecodeOne(c *vCase, b []byte) bool {
	cr := &vCountingReader{r: bytes.NewReader(b)}
	p, err := ReadPacket(cr)
	c.Cov("inputs", 1)
	if err != nil {
		if p != nil && false {
			return true
		}
		c.Cov("decode_errors", 1)
		return true
	}
	if p == nil {
		c.Violate("c15:nil-nil", "ReadPacket returned neither packet nor error")
		return false
	}
	return vExerciseDecoded(c, p, cr.n)
}

func vRunC15(c *vCase) {
	r := c.R
	if vSeedPackets == nil {
		vLoadSeedPackets()
		if vSeedPackets == nil {
			vSeedPackets = [][]byte{}
		}
	}
	if vInputFile == nil {
		vInputFile, _ = os.OpenFile(filepath.Join(vOutDir, "current_input.bin"), os.O_CREATE|os.O_RDWR, 0o644)
	}
	save := func(b []byte) { // one pwrite: the input survives a fatal (unrecoverable) crash
		if vInputFile != nil {
			hdr := []byte{byte(len(b)), byte(len(b) >> 8), byte(len(b) >> 16), 0}
			vInputFile.WriteAt(append(hdr, b...), 0)
		}
	}
	kinds := 0
	// (1) totality on hostile inputs
	for i := 0; i < 60; i++ {
		var b []byte
		switch k := r.Intn(6); {
		case k == 0:
			b = make([]byte, r.Intn(200))
			r.Read(b)
		case k <= 2:
			b = vHandPacket(r)
		case k == 3 && len(vSeedPackets) > 0:
			b = vMutate(r, vSeedPackets[r.Intn(len(vSeedPackets))])
			c.Cov("mutated_captures", 1)
		default:
			p := vBuildPacket(r)
			if p == nil {
				continue
			}
			b = vMutate(r, p.Bytes())
		}
		kinds++
		save(b)
		if !vDecodeOne(c, b) {
			c.SetSample(map[string]any{"input_hex": fmt.Sprintf("%x", b[:vMinI(len(b), 200)])})
			return
		}
	}
	// (2) round trip
	for i := 0; i < 30; i++ {
		p := vBuildPacket(r)
		if p == nil {
			continue
		}
		if vChance(r, 0.25) {
			// the same Packet object gets a second payload (other type, other number of dimensions) before it is encoded
			if !vRebuildPacket(r, p) {
				continue
			}
			c.Cov("roundtrips_of_reused_packet_objects", 1)
		}
		b := p.Bytes()
		save(b)
		if vChance(r, 0.2) {
			// a sender encodes one packet after another from the same Packet object and keeps the encodings (a queue of
			// datagrams): an encoding that has been handed out does not change when the next packet is encoded
			keep := append([]byte(nil), b...)
			p2 := *p // what the object was when b was made (the comparison below uses p itself, restored afterwards)
			if vRebuildPacket(r, p) {
				_ = p.Bytes()
				if !bytes.Equal(keep, b) {
					c.Violate("c15:encoding-changed", "the %d bytes returned by Bytes() changed when the same Packet object was given a new payload and encoded again", len(keep))
					return
				}
				c.Cov("encodings_kept_across_the_next_encoding", 1)
			}
			*p = p2
			b = p.Bytes()
			if !bytes.Equal(keep, b) {
				c.Violate("c15:encoding-unstable", "two encodings of the same packet differ")
				return
			}
		}
		if len(b) >= 8150 {
			c.Cov("roundtrips_of_packets_over_8150_bytes", 1)
			if len(b) == 8192 {
				c.Cov("roundtrips_of_8192_byte_packets", 1)
			}
		}
		cr := &vCountingReader{r: bytes.NewReader(b)}
		q, err := ReadPacket(cr)
		if err != nil {
			c.Violate("c15:roundtrip-error", "decoding the encoding of a constructed packet (%s, shape %v, %T x%d) failed: %v", p.String(), p.shape.Sizes, p.Data, vLen(p.Data), err)
			return
		}
		if !vExerciseDecoded(c, q, cr.n) {
			return
		}
		if q.version != p.version || q.sourceID != p.sourceID || q.sequenceNumber != p.sequenceNumber || q.offset != p.offset {
			c.Violate("c15:roundtrip-header", "round trip changed version/source/sequence/offset: %d/%d/%d/%d -> %d/%d/%d/%d", p.version, p.sourceID, p.sequenceNumber, p.offset, q.version, q.sourceID, q.sequenceNumber, q.offset)
			return
		}
		if q.shape == nil || !reflect.DeepEqual(vPosSizes(p.shape.Sizes), vPosSizes(q.shape.Sizes)) {
			c.Violate("c15:roundtrip-shape", "round trip changed the shape %v -> %v", p.shape.Sizes, q.shape)
			return
		}
		if vLen(p.Data) == 0 {
			if q.Data != nil && vLen(q.Data) != 0 {
				c.Violate("c15:roundtrip-payload", "round trip of an empty %T payload produced %T x%d", p.Data, q.Data, vLen(q.Data))
				return
			}
			c.Cov("roundtrips_empty_payload", 1)
		} else if !reflect.DeepEqual(p.Data, q.Data) {
			c.Violate("c15:roundtrip-payload", "round trip changed the payload (%T x%d)", p.Data, vLen(p.Data))
			return
		}
		if (p.timestamp == nil) != (q.timestamp == nil) || (p.timestamp != nil && p.timestamp.T != q.timestamp.T) {
			c.Violate("c15:roundtrip-timestamp", "round trip changed the timestamp counter %v -> %v", p.timestamp, q.timestamp)
			return
		}
		if cr.n != len(b) {
			c.Violate("c15:roundtrip-consumed", "decoding consumed %d of %d encoded bytes", cr.n, len(b))
			return
		}
		if q.Frames() != p.Frames() {
			c.Violate("c15:roundtrip-frames", "frames %d -> %d", p.Frames(), q.Frames())
			return
		}
		c.Cov("roundtrips", 1)
		c.Distinct("payload", fmt.Sprintf("%T/%d", p.Data, len(p.shape.Sizes)))
	}
	// (3) a stream of packets each padded to a stride, as the shared-memory ring delivers them: the stride-aware reader returns
	// every packet, in order, and consumes exactly one padded slot per packet (also when a packet fills its slot exactly)
	for i := 0; i < 4; i++ {
		var pk []*Packet
		var enc [][]byte
		for len(pk) < 2+r.Intn(3) {
			if p := vBuildPacket(r); p != nil && len(p.Bytes()) <= 8192 {
				pk = append(pk, p)
				enc = append(enc, p.Bytes())
			}
		}
		stride := vPick(r, 8192, 8192, len(enc[0]), len(enc[len(enc)-1]), 64, 4096)
		var stream []byte
		for _, b := range enc {
			stream = append(stream, b...)
			if over := len(b) % stride; over > 0 {
				stream = append(stream, make([]byte, stride-over)...)
			}
		}
		save(stream)
		cr := &vCountingReader{r: bytes.NewReader(stream)}
		consumed := 0
		for k, p := range pk {
			q, err := ReadPacketPlusPad(cr, stride)
			slot := (len(enc[k]) + stride - 1) / stride * stride
			if err != nil || q == nil {
				c.Violate("c15:stride-stream", "packet %d of %d (lengths %v, stride %d) could not be read from the padded stream: %v", k+1, len(pk), vLens(enc), stride, err)
				return
			}
			if q.sequenceNumber != p.sequenceNumber || q.Length() != len(enc[k]) || !reflect.DeepEqual(vDataOrNil(p.Data), vDataOrNil(q.Data)) {
				c.Violate("c15:stride-stream", "packet %d of %d (lengths %v, stride %d): read back sequence number %d length %d, sent %d length %d (or the payload differs)", k+1, len(pk), vLens(enc), stride,
					q.sequenceNumber, q.Length(), p.sequenceNumber, len(enc[k]))
				return
			}
			consumed += slot
			if cr.n != consumed {
				c.Violate("c15:stride-stream", "after packet %d of %d (lengths %v, stride %d) the reader has consumed %d bytes, the packets' slots end at %d", k+1, len(pk), vLens(enc), stride, cr.n, consumed)
				return
			}
			if len(enc[k])%stride == 0 {
				c.Cov("stride_streams_with_a_packet_filling_its_slot", 1)
			}
		}
		c.Cov("stride_streams", 1)
	}
	c.Describe("C15 idx-derived: %d hostile inputs + round trips (rng %d)", kinds, r.Int63())
	c.Nontrivial()
}

func vLen(d any) int {
	switch x := d.(type) {
	case []int16:
		return len(x)
	case []int32:
		return len(x)
	case []int64:
		return len(x)
	}
	return -1
}

func vPosSizes(s []int16) []int16 {
	var out []int16
	for _, x := range s {
		if x > 0 {
			out = append(out, x)
		}
	}
	return out
}

// vBuildPacket builds a packet with the public constructors only; nil if NewData refuses it.
func vBuildPacket(r *rand.Rand) (p *Packet) {
	p = NewPacket(uint8(r.Intn(256)), r.Uint32(), vPick(r, uint32(0), uint32(1), ^uint32(0), r.Uint32()), vPick(r, 0, 1, 8, 1000, 1<<31-1, r.Intn(1<<20)))
	if vChance(r, 0.5) {
		rate := vPick(r, 1e9, 256e6, 125e6, 1e6, 3.3e8)
		if vChance(r, 0.5) {
			p.SetTimestamp(MakeTimestamp(uint16(r.Intn(65536)), r.Uint32(), rate))
		} else { // the full 64-bit counter range
			p.SetTimestamp(&PacketTimestamp{T: vPick(r, r.Uint64(), ^uint64(0), uint64(1)<<48, uint64(1)<<63), Rate: rate})
		}
	}
	ndim := vPick(r, 1, 1, 1, 2, 3, 4)
	dims := make([]int16, ndim)
	nchan := 1
	for i := range dims {
		dims[i] = int16(vPick(r, 1, 2, 3, 4, 8))
		nchan *= int(dims[i])
	}
	frames := vPick(r, 1, 2, 5, 20, 100, 0) // also packets that announce a shape and carry no sample (simulated dropped data)
	n := nchan * frames
	var err error
	if vChance(r, 0.08) {
		// the largest packets the constructors make: the payload grows to NewData's own limit (whatever headers this packet has),
		// then 0-2 frames less
		w := vPick(r, 2, 4, 8)
		build := func(k int) error {
			switch w {
			case 2:
				d := make([]int16, k)
				for i := range d {
					d[i] = int16(r.Intn(65536))
				}
				return p.NewData(d, dims)
			case 4:
				d := make([]int32, k)
				for i := range d {
					d[i] = int32(r.Uint32())
				}
				return p.NewData(d, dims)
			}
			d := make([]int64, k)
			for i := range d {
				d[i] = int64(r.Uint64())
			}
			return p.NewData(d, dims)
		}
		k := (8192 / w / nchan) * nchan
		for k > 0 && build(k) != nil {
			k -= nchan
		}
		if less := r.Intn(3) * nchan; less > 0 && k > less {
			k -= less
			if build(k) != nil {
				return nil
			}
		}
		if k <= 0 {
			return nil
		}
		return p
	}
	switch r.Intn(3) {
	case 0:
		if n*2 > 8000 {
			n = (8000 / 2 / nchan) * nchan
		}
		d := make([]int16, n)
		for i := range d {
			d[i] = int16(r.Intn(65536))
		}
		err = p.NewData(d, dims)
	case 1:
		if n*4 > 8000 {
			n = (8000 / 4 / nchan) * nchan
		}
		d := make([]int32, n)
		for i := range d {
			d[i] = int32(r.Uint32())
		}
		err = p.NewData(d, dims)
	case 2:
		if n*8 > 8000 {
			n = (8000 / 8 / nchan) * nchan
		}
		d := make([]int64, n)
		for i := range d {
			d[i] = int64(r.Uint64())
		}
		err = p.NewData(d, dims)
	}
	if err != nil {
		return nil
	}
	return p
}

// vRebuildPacket gives the packet a new payload of another shape, as a sender does that re-uses one Packet object.
func vRebuildPacket(r *rand.Rand, p *Packet) bool {
	ndim := vPick(r, 1, 1, 2, 3)
	dims := make([]int16, ndim)
	nchan := 1
	for i := range dims {
		dims[i] = int16(vPick(r, 1, 2, 3, 8))
		nchan *= int(dims[i])
	}
	n := nchan * vPick(r, 1, 3, 10)
	if vChance(r, 0.5) {
		d := make([]int16, n)
		for i := range d {
			d[i] = int16(r.Intn(65536))
		}
		return p.NewData(d, dims) == nil
	}
	d := make([]int32, n)
	for i := range d {
		d[i] = int32(r.Uint32())
	}
	return p.NewData(d, dims) == nil
}

func init() {
	vRegister("C15", &vProp{
		Cases: func(tier string) int {
			if tier == "thorough" {
				return 60000
			}
			return 3200
		},
		Run: func(c *vCase) {
			if f := os.Getenv("VERIF_FUZZ_INPUT"); f != "" {
				vFuzzReplay(c, f)
				return
			}
			vRunC15(c)
		},
		Meta: vMeta{
			Level:       "exploration",
			Rule:        "case = 60 hostile byte strings (random bytes; hand-assembled headers with every TLV type incl. shape without format, empty/multi-type/unknown formats, bad sizes and truncation; mutations of the repository's captured packets and of constructor-built packets) through ReadPacket and every accessor, plus 30 round trips of constructor-built packets (16/32/64 bit, 1-4 dims, offsets, sequence numbers, timestamps); a panic anywhere is a process crash attributed to the journaled case (the input is written to disk first)",
			Assumptions: []string{"timestamp rates are positive and finite (Rate 0 is not a constructible clock)", "NewData's own size limit (8192 bytes) is respected: packets it rejects are not 'constructible'"},
			Guards: map[string]map[string]int{
				"quick":    {"inputs": 150000, "decoded_ok": 50000, "decode_errors": 20000, "decoded_with_frames": 20000, "roundtrips": 50000, "mutated_captures": 5000},
				"thorough": {"inputs": 3000000, "decoded_ok": 1000000, "decode_errors": 400000, "roundtrips": 1000000},
			},
		},
	})
}

// ---------------------------------------------------------------- coverage-guided fuzzing (thorough tier)

// FuzzVerifPacket runs the same totality/consistency oracle under Go's native, coverage-guided fuzzer.
// The driver builds the binary with -fuzz and runs it with -test.fuzz for a fixed time in the thorough tier.
func FuzzVerifPacket(f *testing.F) {
	vLoadSeedPackets()
	for _, b := range vSeedPackets {
		f.Add(b)
	}
	r := rand.New(rand.NewSource(1))
	for i := 0; i < 40; i++ {
		f.Add(vHandPacket(r))
		if p := vBuildPacket(r); p != nil {
			f.Add(p.Bytes())
		}
	}
	f.Fuzz(func(t *testing.T, b []byte) {
		c := &vCase{}
		c.res.Kind = "held"
		vDecodeOne(c, b)
		if c.Violated() {
			t.Fatalf("VERIF-FUZZ-VIOLATION %s :: %s", c.res.Sig, c.res.Detail)
		}
	})
}

// vFuzzReplay: the driver replays a failing fuzz input through the oracle (VERIF_FUZZ_INPUT = file with the raw bytes).
func vFuzzReplay(c *vCase, path string) {
	b, err := os.ReadFile(path)
	if err != nil {
		c.Inconclusive("replay", "%v", err)
		return
	}
	c.Describe("fuzz input %x", b)
	vDecodeOne(c, b)
}

func vLens(bs [][]byte) []int {
	out := make([]int, len(bs))
	for i, b := range bs {
		out[i] = len(b)
	}
	return out
}

// vDataOrNil maps empty payloads of any type to nil (an empty payload decodes as no payload).
func vDataOrNil(d any) any {
	if vLen(d) == 0 {
		return nil
	}
	return d
}
