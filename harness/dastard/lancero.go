package PKGNAME

// C04 — Lancero ingest: frame alignment, channel order, err/fb pairing, external triggers,
// re-alignment after lost bytes.
//
// Drive: a scripted in-memory card implementing lancero.Lanceroer delivers a byte stream of
// well-formed frames (err,fb words; frame bit on row 0; external-trigger flag per row,
// identical across columns; every word is a function of (frame,row,col)) in scripted chunk
// sizes with a synthetic clock. The LanceroSource is assembled in-package and goes through
// the real Start (sampleCard, PrepareChannels, PrepareRun, StartRun alignment, reader
// goroutine, distributeData, CoreLoop); blocks are tapped by a wrapper overriding only
// ProcessSegments. Mix fractions are changed through the real ConfigureMixFraction while
// running. Fault: a word-aligned run of bytes vanishes from the head region of the card's
// unreleased window (what a ring overrun does).

import (
	"fmt"
	"math"
	"sync"
	"sync/atomic"
	"time"

	"github.com/spf13/viper"
)

func vCardErr(f, row, col int) uint16 {
	x := uint32(f)*2654435761 + uint32(row)*40503 + uint32(col)*7919 + 99991
	return uint16(x >> 11)
}

func vCardFB(f, row, col int) uint16 {
	x := uint32(f)*2246822519 + uint32(row)*3266489917 + uint32(col)*668265263 + 374761393
	return uint16(x>>12) &^ 3
}

type vCardStep struct {
	add      int // bytes arriving before this call returns
	gapOff   int // >=0: remove gapLen bytes at this offset of the unreleased window
	gapLen   int
	alignEnd bool // pad add so that the data delivered so far end exactly on a frame boundary
}

type vCardScript struct {
	devnum, nrows, ncols int
	nsampADC             int
	steps                []vCardStep
	flagStyle            int
	errStyle             int
	mixPlan              []vMixChange
	hasGap               bool
	earlyGap             bool // the first gap lies in one of the first three reads
}

type vMixChange struct {
	atBlock   int
	channels  []int
	fractions []float64
}

type vCard struct {
	s         *vCardScript
	mu        sync.Mutex
	frameSize int
	window    []byte
	pending   []byte
	nextFrame int
	produced  int64 // bytes that have arrived at the card (incl. those lost later)
	t0        time.Time
	bytePer   float64 // ns per byte
	phase     int     // 0 idle, 1 sampling, 2 run
	collStart int
	runCalls  int
	runFrame0 int // first frame generated after the run started
	flags     map[int][]bool
	flagLast  bool
	flagsOn   bool
	rng       uint64
	// observations
	overRelease  string
	smallReads   int
	faults       []vCardFault
	tapCount     func() int
	stopped      int
	releasedTot  int64
	trailerCalls int
	stopDelay    time.Duration
	backlog      func() int // entries waiting in the reader's buffer (flow control)
	realClock    bool       // time stamps from the wall clock (free-running workloads), not from the byte count
}

type vCardFault struct {
	call, off, length, blocksSeen int
}

func (k *vCard) rnd() uint64 {
	k.rng ^= k.rng << 13
	k.rng ^= k.rng >> 7
	k.rng ^= k.rng << 17
	return k.rng
}

func (k *vCard) genFrame() {
	f := k.nextFrame
	k.nextFrame++
	s := k.s
	fl := make([]bool, s.nrows)
	for row := 0; row < s.nrows; row++ {
		if k.flagsOn {
			// flag sequence in (frame,row) order
			switch s.flagStyle {
			case 0: // sparse pulses
				if k.flagLast {
					k.flagLast = k.rnd()%3 != 0
				} else {
					k.flagLast = k.rnd()%17 == 0
				}
			case 1: // toggling often
				if k.rnd()%3 == 0 {
					k.flagLast = !k.flagLast
				}
			case 2: // long highs across frames
				if k.rnd()%uint64(5*s.nrows) == 0 {
					k.flagLast = !k.flagLast
				}
			case 3: // one-row blips
				k.flagLast = !k.flagLast && k.rnd()%5 == 0
			}
		}
		fl[row] = k.flagLast
	}
	k.flags[f] = fl
	for row := 0; row < s.nrows; row++ {
		for col := 0; col < s.ncols; col++ {
			e := k.errVal(f, row, col)
			fb := vCardFB(f, row, col)
			if row == 0 {
				fb |= 1
			}
			if fl[row] {
				fb |= 2
			}
			k.pending = append(k.pending, byte(e), byte(e>>8), byte(fb), byte(fb>>8))
		}
	}
}

func (k *vCard) errVal(f, row, col int) uint16 {
	e := vCardErr(f, row, col)
	if col == 0 && row < 2 {
		return e // two full-entropy words per frame identify the frame
	}
	switch k.s.errStyle {
	case 1: // small signed values
		return uint16(int16(e%2001) - 1000)
	case 2: // extremes
		switch e % 4 {
		case 0:
			return 0x7fff
		case 1:
			return 0x8000
		}
	}
	return e
}

func (k *vCard) arrive(n int) {
	for len(k.pending) < n {
		k.genFrame()
	}
	k.window = append(k.window, k.pending[:n]...)
	k.pending = k.pending[n:]
	k.produced += int64(n)
}

func (k *vCard) ChangeRingBuffer(int, int) error { return nil }
func (k *vCard) Close() error                    { return nil }
func (k *vCard) StartAdapter(int, int) error     { return nil }
func (k *vCard) StopAdapter() error {
	time.Sleep(k.stopDelay) // a device that takes a while to stop
	k.mu.Lock()
	k.stopped++
	k.mu.Unlock()
	return nil
}
func (k *vCard) CollectorConfigure(int, int, uint32, int) error {
	return nil
}
func (k *vCard) InspectAdapter() uint32 { return 0 }
func (k *vCard) StartCollector(bool) error {
	k.mu.Lock()
	defer k.mu.Unlock()
	k.collStart++
	k.phase = k.collStart
	if k.phase == 2 {
		k.runFrame0 = k.nextFrame
	}
	return nil
}
func (k *vCard) StopCollector() error { return nil }

// Wait returns when the driver's threshold amount of data is available (here: 4 frames).
func (k *vCard) Wait() (time.Time, time.Duration, error) {
	k.mu.Lock()
	if k.phase == 2 && len(k.window) < 4*k.frameSize {
		k.arrive(4*k.frameSize - len(k.window))
	}
	k.mu.Unlock()
	return time.Now(), 0, nil
}

func (k *vCard) AvailableBuffer() ([]byte, time.Time, error) {
	vFlowWait(k.backlog)
	k.mu.Lock()
	defer k.mu.Unlock()
	s := k.s
	switch {
	case k.phase <= 1:
		// sampling: 60 ms of card time per call
		n := int(60e6/k.bytePer) / k.frameSize * k.frameSize
		if n < 4*k.frameSize {
			n = 4 * k.frameSize
		}
		k.arrive(n + 4*int(k.rnd()%uint64(k.frameSize/4))) // whole words: sampling releases exactly what it was given
	default:
		call := k.runCalls
		k.runCalls++
		if !k.flagsOn && k.nextFrame > k.runFrame0+6 {
			k.flagsOn = true
		}
		if call < len(s.steps) {
			st := s.steps[call]
			if st.alignEnd {
				st.add += (k.frameSize - int((k.produced+int64(st.add))%int64(k.frameSize))) % k.frameSize
			}
			k.arrive(st.add)
			if st.gapLen > 0 && st.gapOff+st.gapLen <= len(k.window) {
				k.window = append(k.window[:st.gapOff:st.gapOff], k.window[st.gapOff+st.gapLen:]...)
				seen := 0
				if k.tapCount != nil {
					seen = k.tapCount()
				}
				k.faults = append(k.faults, vCardFault{call, st.gapOff, st.gapLen, seen})
			}
		} else {
			k.trailerCalls++
			k.arrive(4*k.frameSize + 4*int(k.rnd()%uint64(k.frameSize/2)))
		}
		if len(k.window) < 3*k.frameSize {
			k.smallReads++
		}
	}
	out := make([]byte, len(k.window))
	copy(out, k.window)
	tf := k.t0.Add(time.Duration(float64(k.produced) * k.bytePer))
	if k.realClock {
		tf = time.Now()
	}
	return out, tf, nil
}

func (k *vCard) ReleaseBytes(n int) error {
	k.mu.Lock()
	defer k.mu.Unlock()
	if n < 0 || n > len(k.window) {
		if k.overRelease == "" {
			k.overRelease = fmt.Sprintf("ReleaseBytes(%d) with %d bytes available", n, len(k.window))
		}
		if n > len(k.window) {
			n = len(k.window)
		}
		if n < 0 {
			n = 0
		}
	}
	k.window = k.window[n:]
	k.releasedTot += int64(n)
	return nil
}

// ---------------------------------------------------------------- tap

type vLanTap struct {
	*LanceroSource
	mu        sync.Mutex
	blocks    []vTapBlock
	mixDone   []int // completed ConfigureMixFraction calls when the block reached ProcessSegments
	mixBegun  []int
	frames    int
	nblocks   int32
	mixStart  int32
	mixFinish int32
}

func (t *vLanTap) ProcessSegments(b *dataBlock) error {
	tb := vCopyBlock(b)
	t.mu.Lock()
	t.blocks = append(t.blocks, tb)
	t.mixDone = append(t.mixDone, int(atomic.LoadInt32(&t.mixFinish)))
	t.mixBegun = append(t.mixBegun, int(atomic.LoadInt32(&t.mixStart)))
	if len(tb.lens) > 0 {
		t.frames += tb.lens[0]
	}
	t.mu.Unlock()
	atomic.AddInt32(&t.nblocks, 1)
	return t.LanceroSource.ProcessSegments(b)
}

// ---------------------------------------------------------------- generator

func vGenCardScript(c *vCase, withGap bool) *vCardScript {
	r := c.R
	s := &vCardScript{}
	s.devnum = vPick(r, 0, 0, 0, 1, 3)
	s.nrows = vPick(r, 2, 2, 3, 4, 5, 8, 16, 32)
	s.ncols = vPick(r, 1, 2, 2, 3, 4, 8)
	s.nsampADC = vPick(r, 1, 1, 4)
	s.flagStyle = r.Intn(4)
	s.errStyle = r.Intn(3)
	fs := s.nrows * s.ncols * 4
	nsteps := vRange(r, 25, 70)
	style := r.Intn(4)
	for i := 0; i < nsteps; i++ {
		var add int
		switch vPick(r, style, style, r.Intn(4)) {
		case 0: // tiny, not word aligned
			add = r.Intn(2 * fs)
		case 1: // a few frames
			add = vRange(r, 1, 6)*fs + vPick(r, 0, 0, 1, 2, 3, 4, fs/2)
		case 2: // exact multiples
			add = vRange(r, 0, 12) * fs
		case 3: // many
			add = vRange(r, 20, 120)*fs + r.Intn(fs)
		}
		add = add / 4 * 4 // the card transfers whole 32-bit words
		s.steps = append(s.steps, vCardStep{add: add, gapOff: -1})
	}
	if withGap {
		s.hasGap = true
		ngaps := vPick(r, 1, 1, 2)
		wholeOnly := false
		for g := 0; g < ngaps; g++ {
			i := vRange(r, 8, nsteps-6)
			if g == 0 && vChance(r, 0.25) {
				i = 1 + r.Intn(3) // bytes are lost before the run's first block (call 0 is the start-up alignment's own read)
				s.earlyGap = true
			}
			st := &s.steps[i]
			if st.add < 5*fs {
				st.add += 5 * fs
			}
			st.gapOff = 4 * r.Intn(fs/4) // word aligned, inside the first frame of the unreleased window
			kind := r.Intn(4)
			if wholeOnly {
				kind = 2
			}
			switch kind {
			case 0:
				st.gapLen = 4 * vRange(r, 1, fs/4)
			case 1:
				st.gapLen = 4 * vRange(r, 1, 3*fs/4)
			case 2:
				st.gapLen = fs * vRange(r, 1, 3) // whole frames: alignment survives
			case 3:
				st.gapLen = 4 * (1 + r.Intn(4))
			}
			if st.gapLen%fs == 0 {
				st.gapOff = 0 // whole frames vanish at a frame boundary (inside a frame this would splice two frames undetectably)
				wholeOnly = true
			} else {
				if vChance(r, 0.5) {
					// the read that contains the loss ends exactly on a frame boundary and is followed by one or two reads that are too
					// short to be used (fewer than 3 frames): the loss must still be reported by the next block
					st.alignEnd = true
					for j := i + 1; j < i+1+vRange(r, 1, 2) && j < nsteps; j++ {
						s.steps[j] = vCardStep{add: fs * vPick(r, 0, 1, 1, 2), gapOff: -1}
					}
				}
				break // one alignment-breaking loss per run, so that the report can be attributed
			}
		}
	}
	// mix plan: changes at increasing block counts
	nmix := vPick(r, 0, 1, 2, 4)
	at := 1
	nfb := s.nrows * s.ncols
	for m := 0; m < nmix; m++ {
		at += vRange(r, 1, 6)
		var chs []int
		var fr []float64
		all := vChance(r, 0.4)
		for p := 0; p < nfb; p++ {
			if all || vChance(r, 0.4) {
				chs = append(chs, 2*p+1)
				fr = append(fr, vPick(r, 0.0, 0.25, -0.5, 1.0, 3.7, -12.0, 1000.0, -1000.0))
			}
		}
		if len(chs) == 0 {
			chs, fr = []int{1}, []float64{0.75}
		}
		s.mixPlan = append(s.mixPlan, vMixChange{at, chs, fr})
	}
	return s
}

func (s *vCardScript) String() string {
	var gaps []string
	for i, st := range s.steps {
		if st.gapLen > 0 {
			gaps = append(gaps, fmt.Sprintf("call %d: %d bytes at offset %d", i, st.gapLen, st.gapOff))
		}
	}
	adds := make([]int, len(s.steps))
	for i, st := range s.steps {
		adds[i] = st.add
	}
	return fmt.Sprintf("devnum=%d rows=%d cols=%d nsampADC=%d flagStyle=%d errStyle=%d chunks(bytes)=%v gaps=%v mix=%v", s.devnum, s.nrows, s.ncols, s.nsampADC, s.flagStyle, s.errStyle, adds, gaps, s.mixPlan)
}

func vRunLancero(c *vCase) {
	withGap := c.Idx%3 == 2
	s := vGenCardScript(c, withGap)
	c.Describe("%s", s.String())
	vRunLanceroOnce(c, s)
	c.Nontrivial()
}

func vRunLanceroOnce(c *vCase, s *vCardScript) {
	viper.Reset()
	var processed int64
	verifInstall(&verifHandlers{Duration: func(name string, d time.Duration) time.Duration {
		if name == "lancero.readPeriod" {
			return time.Millisecond
		}
		return d
	}, Point: func(name string) {
		if name == "core.process.end" {
			atomic.AddInt64(&processed, 1)
		}
	}})
	defer verifInstall(nil)
	fs := s.nrows * s.ncols * 4
	lsync := 2000
	card := &vCard{s: s, frameSize: fs, t0: time.Unix(vT0Unix, 0), flags: map[int][]bool{}, rng: uint64(c.R.Int63()) | 1}
	framePeriodNs := float64(lsync*s.nrows) / 125.0 * 1000
	card.bytePer = framePeriodNs / float64(fs)
	ls := new(LanceroSource)
	ls.name = "Lancero"
	ls.nsamp = s.nsampADC
	ls.devices = map[int]*LanceroDevice{}
	ls.channelsPerPixel = 2
	dev := &LanceroDevice{devnum: s.devnum, nrows: s.nrows, lsync: lsync, clockMHz: 125, card: card}
	ls.devices[s.devnum] = dev
	ls.active = []*LanceroDevice{dev}
	ls.ncards = 1
	ls.clockMHz = 125
	ls.firstRowChanNum = 1
	if c.Idx%5 == 1 && s.nrows != s.ncols {
		// an earlier run of the same source object on an array with the same number of channels but the transposed shape,
		// with a mix fraction set: nothing of it may leak into the run that is checked (channel order, err/fb pairing, mix)
		pre := vEndlessCard(s.ncols, s.nrows, uint64(c.R.Int63()))
		pre.s.devnum = s.devnum
		pre.backlog = func() int { return len(ls.buffersChan) }
		pdev := &LanceroDevice{devnum: s.devnum, nrows: s.ncols, lsync: lsync, clockMHz: 125, card: pre}
		ls.devices[s.devnum] = pdev
		ls.active = []*LanceroDevice{pdev}
		ls.nsamp = 1
		pq := make(chan func())
		if err := Start(ls, pq, 4, 16); err != nil {
			// (the free-running card of the earlier run is not sampled successfully for every geometry: then there is no earlier run)
			c.Cov("earlier_run_did_not_start", 1)
		} else {
			for i := 0; i < 5000 && atomic.LoadInt64(&processed) < 3; i++ {
				time.Sleep(time.Millisecond)
			}
			ls.ConfigureMixFraction(&MixFractionObject{ChannelIndices: []int{1}, MixFractions: []float64{0.5}})
			p1 := atomic.LoadInt64(&processed)
			for i := 0; i < 5000 && atomic.LoadInt64(&processed) < p1+2; i++ {
				time.Sleep(time.Millisecond)
			}
			if !vWatched(c, "Stop", 20*time.Second, func() { ls.Stop() }) {
				return
			}
			c.Cov("runs_after_a_run_on_the_transposed_array", 1)
		}
		ls.nsamp = s.nsampADC
		ls.devices = map[int]*LanceroDevice{s.devnum: dev}
		ls.active = []*LanceroDevice{dev}
	}
	card.backlog = func() int { return len(ls.buffersChan) }
	tap := &vLanTap{LanceroSource: ls}
	card.tapCount = func() int { return int(atomic.LoadInt32(&tap.nblocks)) }
	queued := make(chan func())
	if err := Start(tap, queued, 4, 16); err != nil {
		c.Violate("c04:start-failed", "Start on a well-formed scripted card failed: %v\n%s", err, s)
		return
	}
	// mix changes at the planned block counts, from this goroutine (one client)
	type mixEv struct {
		ch int
		fr float64
	}
	mixHist := map[int][]float64{} // channel -> scales in force, index = number of completed changes affecting... (see below)
	var mixLog [][]mixEv
	plan := s.mixPlan
	t0 := time.Now()
	for {
		card.mu.Lock()
		calls, trailer := card.runCalls, card.trailerCalls
		card.mu.Unlock()
		nb := int(atomic.LoadInt32(&tap.nblocks))
		if len(plan) > 0 && nb >= plan[0].atBlock {
			m := plan[0]
			plan = plan[1:]
			atomic.AddInt32(&tap.mixStart, 1)
			_, err := ls.ConfigureMixFraction(&MixFractionObject{ChannelIndices: m.channels, MixFractions: m.fractions})
			atomic.AddInt32(&tap.mixFinish, 1)
			if err != nil {
				c.Violate("c04:mix-rejected", "ConfigureMixFraction(%v,%v) failed: %v", m.channels, m.fractions, err)
				break
			}
			var evs []mixEv
			for i, ch := range m.channels {
				evs = append(evs, mixEv{ch, m.fractions[i]})
			}
			mixLog = append(mixLog, evs)
			continue
		}
		if calls >= len(s.steps) && trailer >= 12 && len(plan) == 0 {
			break
		}
		if ls.GetState() != Active {
			break
		}
		if time.Since(t0) > 100*time.Second {
			c.Inconclusive("slow:c04", "reader made only %d calls in 100 s", calls)
			break
		}
		time.Sleep(500 * time.Microsecond)
	}
	_ = mixHist
	ended := ls.GetState() != Active
	if !vWatched(c, "LanceroSource.Stop", 20*time.Second, func() { ls.Stop() }) {
		return
	}
	if ended {
		c.Violate("c04:source-ended", "the source ended by itself while the card kept delivering well-formed frames\n%s", s)
		return
	}
	// scales per fb channel as a sequence of (after k completed changes)
	nch := s.nrows * s.ncols * 2
	scales := make([][]float64, len(mixLog)+1)
	cur := make([]float64, nch)
	scales[0] = append([]float64{}, cur...)
	for k, evs := range mixLog {
		for _, e := range evs {
			cur[e.ch] = e.fr / float64(s.nsampADC)
		}
		scales[k+1] = append([]float64{}, cur...)
	}
	vCheckLancero(c, s, card, tap, scales)
}

func vCheckLancero(c *vCase, s *vCardScript, card *vCard, tap *vLanTap, scales [][]float64) {
	tap.mu.Lock()
	blocks, mixDone, mixBegun := tap.blocks, tap.mixDone, tap.mixBegun
	tap.mu.Unlock()
	card.mu.Lock()
	defer card.mu.Unlock()
	nrows, ncols := s.nrows, s.ncols
	nch := nrows * ncols * 2
	c.Cov("runs", 1)
	c.Cov("blocks", len(blocks))
	c.Cov("small_reads", card.smallReads)
	if ncols > 1 {
		c.Cov("runs_multi_column", 1)
	}
	if card.overRelease != "" {
		c.Violate("c04:over-release", "the reader released more bytes than the card had available: %s\n%s", card.overRelease, s)
		return
	}
	if len(blocks) < 3 {
		c.Violate("c04:no-data", "only %d blocks were emitted although the card delivered %d bytes in the run\n%s", len(blocks), card.produced, s)
		return
	}
	// which card frame is each emitted frame? identify by the error word of (row 0, col 0) and verify the rest
	chanOf := func(row, col, fb int) int { return 2*(col*nrows+row) + fb }
	matches := func(b *vTapBlock, i int, f int) bool {
		for row := 0; row < nrows; row++ {
			for col := 0; col < ncols; col++ {
				if uint16(b.data[chanOf(row, col, 0)][i]) != card.errVal(f, row, col) {
					return false
				}
			}
		}
		return true
	}
	var G []int   // card frame of each emitted frame
	var L []int64 // frame index label of each emitted frame
	var BI []int  // block index
	prev := -1
	var nextFirst FrameIndex
	lossBefore := map[int]bool{} // block index -> frames were lost between the previous block and this one
	for bi := range blocks {
		b := &blocks[bi]
		if len(b.lens) != nch {
			c.Violate("c04:nchan", "block %d has %d segments, geometry %dx%d needs %d\n%s", bi, len(b.lens), nrows, ncols, nch, s)
			return
		}
		for ch := 0; ch < nch; ch++ {
			if b.lens[ch] != b.lens[0] || b.first[ch] != b.first[0] {
				c.Violate("c04:unequal-segments", "block %d: channel %d has %d samples starting at frame %d, channel 0 %d at %d\n%s", bi, ch, b.lens[ch], b.first[ch], b.lens[0], b.first[0], s)
				return
			}
		}
		if bi > 0 && b.first[0] < nextFirst {
			c.Violate("c04:frame-numbers-go-back", "block %d starts at frame %d, but block %d (starting at %d, %d frames, dropped=%d) already covered frames up to %d\n%s",
				bi, b.first[0], bi-1, blocks[bi-1].first[0], blocks[bi-1].lens[0], blocks[bi-1].dropped[0], nextFirst-1, s)
			return
		}
		nextFirst = b.first[0] + FrameIndex(b.lens[0])
		for i := 0; i < b.lens[0]; i++ {
			f := -1
			if prev >= 0 && matches(b, i, prev+1) {
				f = prev + 1
			} else {
				lo := prev + 1
				if prev < 0 {
					lo = card.runFrame0 - 2
					if lo < 0 {
						lo = 0
					}
				}
				for q := lo; q < card.nextFrame; q++ {
					if matches(b, i, q) {
						f = q
						break
					}
				}
			}
			if f < 0 {
				c.Violate("c04:not-a-frame", "block %d sample %d: the error words of all (row,col) do not form any whole card frame after frame %d (expected frame %d): misaligned, reordered or duplicated data\n%s",
					bi, i, prev, prev+1, s)
				return
			}
			if prev >= 0 && f != prev+1 {
				if !s.hasGap {
					c.Violate("c04:frame-skipped", "block %d sample %d is card frame %d, the previous emitted frame was %d: %d frames missing although no byte was lost\n%s", bi, i, f, prev, f-prev-1, s)
					return
				}
				if i != 0 {
					c.Violate("c04:loss-inside-block", "block %d: frames %d..%d missing in the middle of a block (sample %d)\n%s", bi, prev+1, f-1, i, s)
					return
				}
				lossBefore[bi] = true
			}
			G = append(G, f)
			L = append(L, int64(b.first[0])+int64(i))
			BI = append(BI, bi)
			prev = f
		}
	}
	c.Cov("frames_emitted", len(G))
	c.Cov("startup_frames_consumed", G[0]-card.runFrame0)
	// feedback channels: one-sample delay, flag bits cleared, mix with saturation; one scale per block
	lastIdx := 0
	pos := 0
	for bi := range blocks {
		b := &blocks[bi]
		n := b.lens[0]
		cands := []int{}
		for k := range scales {
			ok := true
		scan:
			for row := 0; row < nrows; row++ {
				for col := 0; col < ncols; col++ {
					ch := chanOf(row, col, 1)
					for i := 0; i < n; i++ {
						gi := pos + i
						if gi == 0 {
							continue
						}
						fbPrev := float64(vCardFB(G[gi-1], row, col))
						e := float64(int16(card.errVal(G[gi], row, col)))
						x := fbPrev + scales[k][ch]*e
						if x > 65535 {
							x = 65535
						}
						if x < 0 {
							x = 0
						}
						if math.Abs(float64(b.data[ch][i])-x) > 0.5000001 {
							ok = false
							break scan
						}
					}
				}
			}
			if ok {
				cands = append(cands, k)
			}
		}
		if len(cands) == 0 {
			// explain with the first mismatch under the scale that should be in force
			k := mixDone[bi]
			if k >= len(scales) {
				k = len(scales) - 1
			}
			msg := ""
			for row := 0; row < nrows && msg == ""; row++ {
				for col := 0; col < ncols && msg == ""; col++ {
					ch := chanOf(row, col, 1)
					for i := 0; i < n; i++ {
						gi := pos + i
						if gi == 0 {
							continue
						}
						fbPrev := float64(vCardFB(G[gi-1], row, col))
						e := float64(int16(card.errVal(G[gi], row, col)))
						x := math.Max(0, math.Min(65535, fbPrev+scales[k][ch]*e))
						if math.Abs(float64(b.data[ch][i])-x) > 0.5000001 {
							msg = fmt.Sprintf("channel %d (row %d col %d) sample %d = %d; previous feedback word (flags cleared) %v, error %v, scale %v -> expected %.2f", ch, row, col, i, b.data[ch][i], fbPrev, e, scales[k][ch], x)
							break
						}
					}
				}
			}
			c.Violate("c04:feedback", "block %d: the feedback streams are not 'previous feedback word with flag bits cleared + scale x signed error, saturated' under any mix setting that was ever in force; %s\n%s", bi, msg, s)
			return
		}
		// choose the smallest admissible candidate
		lower := lastIdx
		if bi > 0 && mixDone[bi-1] > lower {
			lower = mixDone[bi-1] // a change completed before the previous block was processed applies from this block on
		}
		chosen := -1
		for _, k := range cands {
			if k >= lower {
				chosen = k
				break
			}
		}
		if chosen < 0 || chosen > mixBegun[bi] {
			c.Violate("c04:mix-timing", "block %d matches mix settings %v only; %d changes had completed before the previous block was processed and %d had been begun when this block was processed (previous block used setting %d)\n%s",
				bi, cands, lower, mixBegun[bi], lastIdx, s)
			return
		}
		if chosen != lastIdx {
			c.Cov("mix_changes_observed", 1)
		}
		lastIdx = chosen
		for ch := 1; ch < nch; ch += 2 {
			for i := 0; i < n; i++ {
				if b.data[ch][i] == 65535 {
					c.Cov("saturated_high", 1)
				} else if b.data[ch][i] == 0 && pos+i > 0 {
					c.Cov("saturated_low", 1)
				}
			}
		}
		c.Cov("feedback_samples_checked", n*nrows*ncols)
		pos += n
	}
	// external triggers
	var want []int64
	last := false
	for gi, f := range G {
		fl := card.flags[f]
		for row := 0; row < nrows; row++ {
			if fl[row] && !last {
				want = append(want, L[gi]*int64(nrows)+int64(row))
				if row > 0 {
					c.Cov("exttrig_rises_in_rows_ge1", 1)
				}
			}
			last = fl[row]
		}
	}
	var got []int64
	for _, b := range blocks {
		got = append(got, b.ext...)
	}
	c.Cov("exttrig_expected", len(want))
	if fmt.Sprint(got) != fmt.Sprint(want) {
		k := 0
		for k < len(got) && k < len(want) && got[k] == want[k] {
			k++
		}
		g, w := "none", "none"
		if k < len(got) {
			g = fmt.Sprintf("%d (frame %d row %d)", got[k], got[k]/int64(nrows), got[k]%int64(nrows))
		}
		if k < len(want) {
			w = fmt.Sprintf("%d (frame %d row %d)", want[k], want[k]/int64(nrows), want[k]%int64(nrows))
		}
		c.Violate("c04:external-triggers", "external-trigger counts differ from the rising edges of the per-row flag: %d reported, %d expected; first difference at #%d: reported %s, expected %s (rows=%d cols=%d)\n%s",
			len(got), len(want), k, g, w, nrows, ncols, s)
		return
	}
	// gaps: a loss of alignment must be reported by the block that re-aligned
	if s.hasGap {
		c.Cov("gap_runs", 1)
		for _, ft := range card.faults {
			c.Cov("gaps_injected", 1)
			c.Distinct("gap_offset_words", ft.off/4%(card.frameSize/4))
			if ft.length%card.frameSize != 0 {
				c.Cov("gaps_breaking_alignment", 1)
			}
		}
		for bi := range lossBefore {
			c.Cov("blocks_after_loss", 1)
			if blocks[bi].dropped[0] > 0 {
				c.Cov("losses_reported", 1)
			}
		}
		// every alignment-breaking gap: the first block emitted after it that follows a loss must report it
		for _, ft := range card.faults {
			if ft.length%card.frameSize == 0 {
				continue
			}
			reported := false
			sawLoss := false
			for bi := ft.blocksSeen; bi < len(blocks); bi++ {
				if blocks[bi].dropped[0] > 0 {
					reported = true
					break
				}
				if lossBefore[bi] {
					sawLoss = true
					break
				}
			}
			if ft.blocksSeen == 0 && reported {
				c.Cov("losses_before_the_first_block_reported", 1)
			}
			if sawLoss && !reported {
				c.Violate("c04:loss-not-reported", "%d bytes (not a whole number of %d-byte frames) vanished at call %d; frames are missing between two blocks but the block after the loss reports droppedFrames=0\n%s",
					ft.length, card.frameSize, ft.call, s)
				return
			}
		}
	} else {
		for bi, b := range blocks {
			if b.dropped[0] != 0 {
				c.Violate("c04:false-drop", "block %d reports %d dropped frames although no byte was lost\n%s", bi, b.dropped[0], s)
				return
			}
		}
	}
	if card.stopped < 1 {
		c.Violate("c04:card-not-stopped", "the card adapter was not stopped after Stop()")
	}
	_ = BI
}

func init() {
	vRegister("C04", &vProp{
		Cases: func(tier string) int {
			if tier == "thorough" {
				return 4800
			}
			return 720
		},
		Run: vRunLancero,
		Meta: vMeta{Level: "exploration",
			Rule: "case = scripted card: device number 0/1/3, rows 2-32, columns 1-8, ADC samples 1/4, error-word style (hash, small signed, extremes), per-row external-trigger flag sequences (sparse, toggling, long highs, blips) and a chunk script for the driver reads (tiny, not frame-aligned, a few frames, exact multiples, hundreds of frames), 0-4 mix-fraction changes (0, fractional, negative, +-1000 = saturation) issued through ConfigureMixFraction at chosen block counts; every third case removes 1-2 word-aligned byte runs (4 bytes to 3 frames, every word offset inside the first unreleased frame) from the card's window. The real Start..CoreLoop pipeline runs against the card; every block handed to ProcessSegments is decoded: each emitted frame must be a whole card frame (all rows x columns in their column-major channels), consecutive unless bytes were lost (then only between blocks, later, never duplicated), feedback = previous feedback word with flags cleared + scale x signed error saturated under one mix setting per block consistent with the change times, external-trigger counts = frame*rows+row of every rising edge, frame numbers never overlap, alignment-breaking losses reported; non-trivial = every case",
			Assumptions: []string{"lost bytes are whole 4-byte words and the loss lies within the first frame of the card's unreleased data (a loss deeper inside an already available buffer cannot be seen by a check of the buffer head)",
				"one card per source (the reader refuses more)", "the card transfers whole 32-bit words: chunk sizes are arbitrary multiples of 4 bytes", "Wait() returns only when at least 4 frames are available (the driver threshold); the reader loop, which does not wait, sees arbitrary chunk sizes", "rows >= 2 (a one-row frame has no frame-bit pattern)", "rounding of the mix result is accepted within 0.5; the very first feedback sample of a run has no predecessor and is not checked",
				"a loss that is a whole number of frames keeps alignment and need not be reported; such losses are injected at a frame boundary only (inside a frame they would splice two frames, which no alignment check can see)"},
			Guards: map[string]map[string]int{
				"quick":    {"runs": 200, "runs_multi_column": 100, "small_reads": 100, "exttrig_rises_in_rows_ge1": 300, "feedback_samples_checked": 100000, "mix_changes_observed": 50, "saturated_high": 100, "saturated_low": 100, "gaps_breaking_alignment": 40, "distinct:gap_offset_words": 15, "losses_reported": 30},
				"thorough": {"runs": 4000, "gaps_breaking_alignment": 800, "losses_reported": 600},
			}},
	})
}
