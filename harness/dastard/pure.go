package PKGNAME

// C12 (phase unwrapping), C13 (analysis values equal their definitions).

import (
	"encoding/binary"
	"fmt"
	"math"
	"math/big"
	"math/rand"
	"net"
	"path/filepath"
	"sync"
	"time"

	"gonum.org/v1/gonum/mat"
)

// ---------------------------------------------------------------- C12

type vUnwrapOpts struct {
	fb, drop  uint
	enable    bool
	biasLevel int
	resetAft  int
	sign      int
	invert    bool
}

// vUnwrapModel is the statement made executable with plain integers (no 16-bit tricks):
// out = p + k*quantum (mod 2^16), k moves by one when the input step leaves [bias-pi, bias+pi],
// and returns to its home value after more than resetAfter consecutive samples away from it.
type vUnwrapModel struct {
	o       vUnwrapOpts
	last    int
	k, home int
	cnt     int
	quantum int
	lo, hi  int
}

func newUnwrapModel(o vUnwrapOpts) *vUnwrapModel {
	m := &vUnwrapModel{o: o}
	if o.drop > 0 && o.enable {
		m.quantum = 1 << (o.fb - o.drop)
		bias := int(int16(o.biasLevel>>o.drop)) % m.quantum
		m.hi = bias + m.quantum/2
		m.lo = bias - m.quantum/2
		m.home = 1
		if o.sign <= 0 {
			m.home = -2
		}
		m.k = m.home
	}
	return m
}

func (m *vUnwrapModel) p(raw RawType) int {
	v := int(raw)
	if m.o.invert {
		v ^= 0xffff
	}
	if m.o.drop == 0 {
		return v
	}
	mask := 0xffff
	if m.o.fb < 16 {
		mask = (1 << m.o.fb) - 1
	}
	return (v & mask) >> m.o.drop
}

// step returns (output, resetHappened)
func (m *vUnwrapModel) step(raw RawType) (RawType, bool) {
	p := m.p(raw)
	if m.o.drop == 0 || !m.o.enable {
		m.cnt = 0
		return RawType(uint16(p)), false
	}
	st := p - m.last
	m.last = p
	for st > m.hi { // reduce the step into [lo,hi] by whole quanta (both ends accepted)
		m.k--
		st -= m.quantum
	}
	for st < m.lo {
		m.k++
		st += m.quantum
	}
	// the output is a 16-bit number, so offsets that differ by 2^16 are the same offset
	K := 65536 / m.quantum
	m.k = ((m.k % K) + K) % K
	home := ((m.home % K) + K) % K
	m.home = home
	reset := false
	if m.k == m.home {
		m.cnt = 0
	} else {
		m.cnt++
		if m.cnt > m.o.resetAft {
			m.k = m.home
			m.cnt = 0
			reset = true
		}
	}
	return RawType(uint16(p + m.k*m.quantum)), reset
}

func vGenUnwrapInput(r *rand.Rand, n int, o vUnwrapOpts) []RawType {
	out := make([]RawType, n)
	kind := r.Intn(7)
	if o.resetAft > 60000 {
		kind = 7
	}
	q := 1 << 12
	if o.drop > 0 {
		q = 1 << o.fb // one quantum in raw units
	}
	cur := r.Intn(65536)
	for i := range out {
		switch kind {
		case 0: // slow walk
			cur += r.Intn(2*(q/64+1)+1) - (q/64 + 1)
		case 1: // fast walk
			cur += r.Intn(q+1) - q/2
		case 2: // steps of exactly +-pi, +-pi+-1
			cur += vPick(r, q/2, -q/2, q/2+1, q/2-1, -q/2-1, -q/2+1, 0, 1)
		case 3: // wrap-heavy ramp
			cur += q/3 + r.Intn(5)
		case 4: // constant
		case 5: // uniform random
			cur = r.Intn(65536)
		case 7: // long reset intervals: one step that moves the offset away from home, then nothing for more than the interval
			if i == 10 || i == 10+o.resetAft+200 || (i > 10 && i%(o.resetAft/3+1) == 5 && r.Intn(4) == 0) {
				cur += vPick(r, 3*q/4, -3*q/4, q, -q)
			}
		case 6: // bursts: long excursions away from home then back (drives the reset counter to its boundary)
			if r.Intn(o.resetAft+3) == 0 {
				cur += vPick(r, q, -q, 3*q/4, -3*q/4)
			}
		}
		out[i] = RawType(uint16(cur))
	}
	return out
}

func vUnwrapContext(o vUnwrapOpts, in []RawType, i int) string {
	u3 := NewPhaseUnwrapper(o.fb, o.drop, o.enable, o.biasLevel, o.resetAft, o.sign, o.invert)
	m3 := newUnwrapModel(o)
	ctx := ""
	for j := 0; j <= i; j++ {
		one := []RawType{in[j]}
		u3.UnwrapInPlace(&one)
		w, rs := m3.step(in[j])
		if j > i-6 {
			ctx += fmt.Sprintf("\n  j=%d raw=%d p=%d code{out=%d offset=%d cnt=%d} model{out=%d k=%d cnt=%d reset=%v} lims code[%d,%d] model[%d,%d]", j, in[j], m3.p(in[j]), one[0], u3.offset, u3.resetCount, w, m3.k, m3.cnt, rs, u3.lowerStepLim, u3.upperStepLim, m3.lo, m3.hi)
		}
	}
	return ctx
}

func vRunC12(c *vCase) {
	if c.Idx%100 == 13 {
		vRunC12Roach(c)
		return
	}
	if c.Idx%200 == 57 {
		// the Abaco caller: scripted packet streams through readerMainLoop/demuxData with unwrapping on, every channel's
		// emitted stream against one reference unwrapper run (C03's harness, forced into its unwrapping mode)
		vAbForceUnwrap = true
		vRunAbaco(c)
		vAbForceUnwrap = false
		c.Cov("abaco_path_runs", 1)
		return
	}
	if c.Idx%200 == 157 {
		// the same caller with unwrapping off: inverted channels with and without rescaling (what the unwrapper objects are used for
		// when they do not unwrap); exact expected values, no reference unwrapper
		vAbForceInvert = true
		vRunAbaco(c)
		vAbForceInvert = false
		c.Cov("abaco_path_runs_without_unwrapping", 1)
		return
	}
	r := c.R
	var o vUnwrapOpts
	switch r.Intn(4) {
	case 0: // as Abaco uses it
		o = vUnwrapOpts{fb: 16, drop: 4}
	case 1: // as Roach uses it
		o = vUnwrapOpts{fb: 14, drop: 2}
	default:
		o.fb = uint(8 + r.Intn(9))
		o.drop = uint(r.Intn(7))
		for o.drop > 0 && (o.fb-o.drop < 3 || o.fb-o.drop > 14) {
			o.drop = uint(r.Intn(7))
		}
	}
	o.enable = o.drop > 0 && vChance(r, 0.8)
	if vChance(r, 0.5) {
		o.biasLevel = int(math.Round(0.38 * 65536))
	}
	o.sign = vPick(r, 1, -1)
	if o.sign < 0 {
		o.biasLevel = -o.biasLevel
	}
	o.resetAft = vPick(r, 1, 2, 3, 7, 50, 20000)
	o.invert = vChance(r, 0.3)
	n := 50 + r.Intn(3000)
	if c.Idx%40 == 7 {
		// reset intervals beyond 16 bits, with sequences longer than the interval
		o.resetAft = vPick(r, 65534, 65535, 65536, 70000, 131072)
		n = 2*o.resetAft + 1000 + r.Intn(2000)
		c.Cov("long_reset_intervals", 1)
	}
	in := vGenUnwrapInput(r, n, o)
	c.Describe("C12 %+v n=%d first=%v", o, n, in[:4])
	c.Distinct("opts", fmt.Sprintf("%d/%d/%v", o.fb, o.drop, o.enable))

	whole := make([]RawType, n)
	copy(whole, in)
	u1 := NewPhaseUnwrapper(o.fb, o.drop, o.enable, o.biasLevel, o.resetAft, o.sign, o.invert)
	u1.UnwrapInPlace(&whole)

	// split invariance, including empty and one-sample calls
	u2 := NewPhaseUnwrapper(o.fb, o.drop, o.enable, o.biasLevel, o.resetAft, o.sign, o.invert)
	parts := make([]RawType, 0, n)
	pos := 0
	for pos < n {
		k := vPick(r, 0, 1, 1, 2, 5, 17, 100, 1000)
		if k > n-pos {
			k = n - pos
		}
		seg := make([]RawType, k)
		copy(seg, in[pos:pos+k])
		u2.UnwrapInPlace(&seg)
		parts = append(parts, seg...)
		pos += k
		c.Cov("calls", 1)
	}
	for i := range whole {
		if whole[i] != parts[i] {
			c.Violate("c12:split-dependent", "%+v: sample %d is %d in one call but %d when the sequence is split into calls", o, i, whole[i], parts[i])
			return
		}
	}
	m := newUnwrapModel(o)
	prev := 0
	for i, raw := range in {
		want, reset := m.step(raw)
		got := whole[i]
		p := m.p(raw)
		if m.quantum > 0 {
			if (int(got)-p)%m.quantum != 0 {
				c.Violate("c12:not-congruent", "%+v: sample %d: output %d is not input %d (after drop/inversion) plus a whole number of quanta (%d)", o, i, got, p, m.quantum)
				return
			}
			if i > 0 && !reset {
				st := int(int16(uint16(int(got) - prev)))
				if st < m.lo || st > m.hi {
					c.Violate("c12:step-out-of-range", "%+v: sample %d: output step %d outside [%d,%d] with no reset due%s", o, i, st, m.lo, m.hi, vUnwrapContext(o, in, i))
					return
				}
			}
			if reset {
				c.Cov("resets", 1)
			}
			if m.k != m.home {
				c.Cov("samples_away_from_home", 1)
			}
		} else if int(got) != p {
			c.Violate("c12:disabled-changes-data", "%+v: unwrapping disabled but sample %d: output %d != input %d after drop/inversion", o, i, got, p)
			return
		}
		if got != want {
			ctx := vUnwrapContext(o, in, i)
			c.Violate("c12:model-mismatch", "%+v: sample %d (raw %d): output %d, the integer model of the statement gives %d (k=%d cnt=%d)%s", o, i, raw, got, want, m.k, m.cnt, ctx)
			return
		}
		prev = int(got)
	}
	c.Cov("samples", n)
	c.Nontrivial()
}

// ---------------------------------------------------------------- C13

func vBigSum(vals []int64) *big.Rat {
	s := new(big.Int)
	for _, v := range vals {
		s.Add(s, big.NewInt(v))
	}
	return new(big.Rat).SetInt(s)
}

func vRatF(x *big.Rat) float64 { f, _ := x.Float64(); return f }

func vClose(got, want, tol float64) bool {
	if math.IsNaN(got) || math.IsInf(got, 0) {
		return false
	}
	return math.Abs(got-want) <= tol
}

func vRunC13(c *vCase) {
	r := c.R
	npre := vPick(r, 3, 4, 5, 10, 100, 256) + r.Intn(3)
	if vChance(r, 0.1) {
		npre = 3 + r.Intn(1000)
	}
	n := npre + 1 + r.Intn(vPick(r, 4, 50, 500, 4000))
	signed := vChance(r, 0.4)
	data := make([]RawType, n)
	kind := r.Intn(8)
	base := r.Intn(65536)
	for i := range data {
		switch kind {
		case 0:
			data[i] = RawType(base)
		case 1:
			data[i] = 65535
		case 2:
			data[i] = RawType((i % 2) * 65535)
		case 3: // signed wrap-around neighbourhood
			data[i] = RawType(uint16(32768 - 3 + r.Intn(7)))
		case 4:
			data[i] = RawType(r.Intn(65536))
		case 5: // pulse
			v := base/2 + r.Intn(9)
			if i >= npre {
				v += int(8000 * math.Exp(-float64(i-npre)/40))
			}
			data[i] = RawType(uint16(v))
		case 6: // ramp in pretrigger
			data[i] = RawType(uint16(base + 3*i))
		case 7:
			data[i] = 0
		}
	}
	nbases := 0
	if vChance(r, 0.5) {
		nbases = 1 + r.Intn(8)
		if n <= 40 && vChance(r, 0.2) {
			nbases = n // as many components as samples: projectors and basis are both square
			c.Cov("square_models", 1)
		}
	}
	c.Describe("C13 npre=%d n=%d signed=%v kind=%d nbases=%d head=%v", npre, n, signed, kind, nbases, data[:3])
	c.Distinct("kind", kind)
	dsp := NewDataStreamProcessor(0, nil, npre, n)
	if nbases > 0 && n <= 400 && vChance(r, 0.2) {
		// the channel's earlier life: longer records with a model of their own were analysed, then the record length was reduced
		// (which drops that model). Nothing of it may show in what follows.
		n1 := n + 1 + r.Intn(60)
		dsp = NewDataStreamProcessor(0, nil, npre, n1)
		k1 := 1 + r.Intn(4)
		p1, b1 := make([]float64, k1*n1), make([]float64, n1*k1)
		for i := range p1 {
			p1[i], b1[i] = r.NormFloat64()/float64(n1), r.NormFloat64()*100
		}
		if err := dsp.SetProjectorsBasis(mat.NewDense(k1, n1, p1), mat.NewDense(n1, k1, b1), "earlier"); err == nil {
			d1 := make([]RawType, n1)
			for i := range d1 {
				d1[i] = RawType(r.Intn(65536))
			}
			dsp.AnalyzeData([]*DataRecord{{data: d1, presamples: npre, signed: signed, channelIndex: 0}})
			if err := dsp.ConfigurePulseLengths(n, npre); err != nil {
				c.Inconclusive("setup", "ConfigurePulseLengths(%d,%d) after %d: %v", n, npre, n1, err)
				return
			}
			c.Cov("models_loaded_after_a_life_with_longer_records", 1)
		} else {
			dsp = NewDataStreamProcessor(0, nil, npre, n)
		}
	}
	var P, B *mat.Dense
	if nbases > 0 {
		pd := make([]float64, nbases*n)
		bd := make([]float64, n*nbases)
		scale := vPick(r, 1.0, 1e-3, 1e3, 1e-6)
		mk := r.Intn(3)
		for i := range pd {
			switch mk {
			case 0:
				pd[i] = (r.Float64() - 0.5) * scale
			case 1: // identity-like
				if i/n == (i%n)%nbases {
					pd[i] = 1
				}
			case 2:
				pd[i] = r.NormFloat64() * scale / float64(n)
			}
		}
		for i := range bd {
			bd[i] = (r.Float64() - 0.5) / scale
			if mk == 1 {
				bd[i] = 0
				if i%nbases == (i/nbases)%nbases {
					bd[i] = 1
				}
			}
		}
		P = mat.NewDense(nbases, n, pd)
		B = mat.NewDense(n, nbases, bd)
		// loaded the way a request loads it: through the source's ConfigureProjectorsBases
		src := &AnySource{}
		src.processors = []*DataStreamProcessor{dsp}
		if vChance(r, 0.3) {
			// a model of the same shape and description, with other numbers, was loaded first (a model retrained into the same
			// file): the one loaded last is the one in use
			p0, b0 := make([]float64, nbases*n), make([]float64, n*nbases)
			for i := range p0 {
				p0[i], b0[i] = r.NormFloat64(), r.NormFloat64()
			}
			if err := src.ConfigureProjectorsBases(0, mat.NewDense(nbases, n, p0), mat.NewDense(n, nbases, b0), "verif"); err == nil {
				c.Cov("models_replaced_by_one_of_the_same_shape_and_description", 1)
			}
		}
		if err := src.ConfigureProjectorsBases(0, P, B, "verif"); err != nil {
			c.Violate("c13:projectors-rejected", "SetProjectorsBasis rejected matrices of compatible shape %dx%d / %dx%d: %v", nbases, n, n, nbases, err)
			return
		}
		if vChance(r, 0.4) {
			// a later request that is refused (good projectors, basis of the wrong shape, or the other way round) must
			// leave the loaded model as it is: the values of the next record are still those of P and B
			bad := make([]float64, nbases*n)
			for i := range bad {
				bad[i] = r.NormFloat64()
			}
			var err error
			switch r.Intn(3) {
			case 0:
				err = dsp.SetProjectorsBasis(mat.NewDense(nbases, n, bad), mat.NewDense(n+1, nbases, make([]float64, (n+1)*nbases)), "refused")
			case 1:
				err = dsp.SetProjectorsBasis(mat.NewDense(nbases, n, bad), mat.NewDense(n, nbases+1, make([]float64, n*(nbases+1))), "refused")
			case 2:
				err = dsp.SetProjectorsBasis(mat.NewDense(nbases, n+1, make([]float64, nbases*(n+1))), mat.NewDense(n, nbases, bad), "refused")
			}
			if err == nil {
				c.Violate("c13:bad-model-accepted", "SetProjectorsBasis accepted matrices whose shapes do not fit the record length %d / each other", n)
				return
			}
			c.Cov("refused_model_requests", 1)
		}
	}
	if nbases == 0 && npre > 3 && vChance(r, 0.3) {
		// a record of its own shape (as the variable-length edge-multi trigger cuts them): fewer pre-trigger samples and/or a
		// shorter tail than the channel is configured for. The definitions are over the record's own pre-trigger part.
		k := r.Intn(npre - 2)
		t := r.Intn(n - npre)
		data = data[k : n-t]
		npre -= k
		n = len(data)
		c.Cov("records_with_own_shape", 1)
	}
	rec := &DataRecord{data: data, presamples: npre, signed: signed, channelIndex: 0}
	// the record is analysed alone, or as one of a batch (a block with several triggers): nothing of the other records of
	// the call may leak into its values
	batch := []*DataRecord{rec}
	k := r.Intn(4)
	if n <= 300 && vChance(r, 0.1) {
		// a long list (a burst of triggers, or short records in a long block): 33-160 records in one call
		k = 32 + r.Intn(128)
		c.Cov("records_analysed_in_a_long_list", 1)
	}
	if k > 0 {
		pos := r.Intn(k + 1)
		batch = nil
		for i := 0; i <= k; i++ {
			if i == pos {
				batch = append(batch, rec)
				continue
			}
			d := make([]RawType, n)
			for j := range d {
				d[j] = RawType(r.Intn(65536))
			}
			pre := npre
			if vChance(r, 0.15) {
				pre = 0 // a record without pre-trigger samples (the variable-length trigger makes them): its own values are undefined, the others' are not
				c.Cov("batches_with_a_record_without_pretrigger_samples", 1)
			}
			batch = append(batch, &DataRecord{data: d, presamples: pre, signed: signed, channelIndex: 0})
		}
		c.Cov("records_analysed_in_a_batch", 1)
	}
	if nbases > 0 && vChance(r, 0.3) {
		// an OFF file is being written for this channel and the run is paused: the values (they go to the summary
		// messages whether or not files are written) must not depend on that
		dsp.DataPublisher.SetOFF(0, dsp.NPresamples, dsp.NSamples, 1, 1e-5, time.Unix(vT0Unix, 0), 1, 1, 1, 1, 0, 0, 0,
			filepath.Join(c.Dir, "c13.off"), "Verif", "chan0", 0, P, B, "verif", Pixel{})
		dsp.DataPublisher.WritingPaused = vChance(r, 0.7)
		defer dsp.DataPublisher.RemoveOFF()
		c.Cov("records_analysed_with_off_writer", 1)
	}
	dsp.AnalyzeData(batch)

	d := make([]int64, n)
	maxabs := 1.0
	for i, v := range data {
		d[i] = int64(vSigned(v, signed))
		if a := math.Abs(float64(d[i])); a > maxabs {
			maxabs = a
		}
	}
	const rel = 1e-9
	// pretrigger mean
	ptm := new(big.Rat).Quo(vBigSum(d[:npre]), big.NewRat(int64(npre), 1))
	if !vClose(rec.pretrigMean, vRatF(ptm), rel*maxabs) {
		c.Violate("c13:pretrigMean", "pretrigger mean %v, definition gives %v (npre=%d signed=%v)", rec.pretrigMean, vRatF(ptm), npre, signed)
		return
	}
	// least-squares slope times (npre-1)
	xm := big.NewRat(int64(npre-1), 2)
	num := new(big.Rat)
	den := new(big.Rat)
	for i := 0; i < npre; i++ {
		dx := new(big.Rat).Sub(big.NewRat(int64(i), 1), xm)
		dy := new(big.Rat).Sub(big.NewRat(d[i], 1), ptm)
		num.Add(num, new(big.Rat).Mul(dx, dy))
		den.Add(den, new(big.Rat).Mul(dx, dx))
	}
	delta := new(big.Rat).Mul(new(big.Rat).Quo(num, den), big.NewRat(int64(npre-1), 1))
	if !vClose(rec.pretrigDelta, vRatF(delta), rel*maxabs*float64(npre)) {
		c.Violate("c13:pretrigDelta", "pretrigger delta %v, least-squares slope times span gives %v (npre=%d)", rec.pretrigDelta, vRatF(delta), npre)
		return
	}
	npost := int64(n - npre)
	postMean := new(big.Rat).Quo(vBigSum(d[npre:]), big.NewRat(npost, 1))
	avg := new(big.Rat).Sub(postMean, ptm)
	if !vClose(rec.pulseAverage, vRatF(avg), rel*maxabs) {
		c.Violate("c13:pulseAverage", "pulse average %v, definition gives %v", rec.pulseAverage, vRatF(avg))
		return
	}
	ms := new(big.Rat)
	peak := new(big.Rat)
	for _, v := range d[npre:] {
		x := new(big.Rat).Sub(big.NewRat(v, 1), ptm)
		ms.Add(ms, new(big.Rat).Mul(x, x))
		if x.Cmp(peak) > 0 {
			peak = x
		}
	}
	ms.Quo(ms, big.NewRat(npost, 1))
	msF := vRatF(ms)
	msTol := rel * 65536 * 65536 * 4
	gotMS := rec.pulseRMS * rec.pulseRMS
	if math.IsNaN(rec.pulseRMS) {
		if msF > msTol {
			c.Violate("c13:pulseRMS", "pulse RMS is NaN but the mean square about the pretrigger mean is %v", msF)
			return
		}
		c.Cov("rms_nan_near_zero", 1)
	} else if math.Abs(gotMS-msF) > msTol {
		c.Violate("c13:pulseRMS", "pulse RMS %v (square %v), definition gives mean square %v", rec.pulseRMS, gotMS, msF)
		return
	}
	if !vClose(rec.peakValue, vRatF(peak), rel*maxabs) {
		c.Violate("c13:peakValue", "peak value %v, definition gives %v", rec.peakValue, vRatF(peak))
		return
	}
	c.Cov("records", 1)
	// the same numbers as they appear in a summary message (float32 fields at the documented offsets)
	msg := messageSummaries(rec)
	if len(msg) == 2 && len(msg[0]) >= 32 {
		f32 := func(off int) float64 {
			return float64(math.Float32frombits(uint32(msg[0][off]) | uint32(msg[0][off+1])<<8 | uint32(msg[0][off+2])<<16 | uint32(msg[0][off+3])<<24))
		}
		chk := func(name string, off int, want float64) {
			got := f32(off)
			if !(math.Abs(got-want) <= 1e-6*math.Max(1, math.Abs(want))+rel*maxabs) {
				c.Violate("c13:summary-"+name, "summary message %s = %v, definition gives %v", name, got, want)
			}
		}
		chk("pretrigMean", 12, vRatF(ptm))
		chk("peakValue", 16, vRatF(peak))
		chk("pulseAverage", 24, vRatF(avg))
		c.Cov("summary_fields", 3)
	}
	if nbases > 0 {
		const prec = 300
		bf := func(x float64) *big.Float { return new(big.Float).SetPrec(prec).SetFloat64(x) }
		coef := make([]*big.Float, nbases)
		for b := 0; b < nbases; b++ {
			s := bf(0)
			mag := 0.0
			for j := 0; j < n; j++ {
				s.Add(s, new(big.Float).SetPrec(prec).Mul(bf(P.At(b, j)), bf(float64(d[j]))))
				mag += math.Abs(P.At(b, j) * float64(d[j]))
			}
			coef[b] = s
			want, _ := s.Float64()
			if len(rec.modelCoefs) != nbases {
				c.Violate("c13:coef-count", "%d model coefficients for %d bases", len(rec.modelCoefs), nbases)
				return
			}
			if !vClose(rec.modelCoefs[b], want, 1e-11*mag+1e-300) {
				c.Violate("c13:modelCoefs", "coefficient %d = %v, projectors x record gives %v (|terms| %v)", b, rec.modelCoefs[b], want, mag)
				return
			}
		}
		// residual population std-dev of d - B*coef
		res := make([]*big.Float, n)
		mean := bf(0)
		scale := maxabs
		for i := 0; i < n; i++ {
			s := bf(float64(d[i]))
			mag := 0.0
			for b := 0; b < nbases; b++ {
				s.Sub(s, new(big.Float).SetPrec(prec).Mul(bf(B.At(i, b)), coef[b]))
				cf, _ := coef[b].Float64()
				mag += math.Abs(B.At(i, b) * cf)
			}
			if mag > scale {
				scale = mag
			}
			res[i] = s
			mean.Add(mean, s)
		}
		mean.Quo(mean, bf(float64(n)))
		v := bf(0)
		for i := 0; i < n; i++ {
			x := new(big.Float).SetPrec(prec).Sub(res[i], mean)
			v.Add(v, new(big.Float).SetPrec(prec).Mul(x, x))
		}
		v.Quo(v, bf(float64(n)))
		sd := new(big.Float).SetPrec(prec).Sqrt(v)
		want, _ := sd.Float64()
		if !vClose(rec.residualStdDev, want, 1e-7*scale) {
			c.Violate("c13:residualStdDev", "residual std dev %v, population std dev of record - basis x coefficients gives %v (scale %v)", rec.residualStdDev, want, scale)
			return
		}
		c.Cov("records_with_projectors", 1)
	}
	c.Nontrivial()
}

func init() {
	vRegister("C12", &vProp{
		Cases: func(tier string) int {
			if tier == "thorough" {
				return 200000
			}
			return 6000
		},
		Run: vRunC12,
		Meta: vMeta{
			Level:       "exploration",
			Rule:        "case = option set (Abaco 16/4, Roach 14/2 or random fractionBits/drop, enable, bias, pulse sign, resetAfter 1..50/20000 and, in 1 case of 40, 65534..131072 with sequences of twice that length, inversion) x input sequence family (slow/fast walk, exact +-pi steps, wrap-heavy ramp, constant, uniform, excursions that drive the reset counter to its boundary) x random split into calls (incl. empty and 1-sample); oracle = congruence modulo the quantum, step bounds between resets, equality with an integer model of the statement, identical output for the split run",
			Assumptions: []string{"the integer model is the property statement made executable (out = p + k*quantum, k changes by one when the input step leaves [bias-pi,bias+pi], returns home after more than resetAfter consecutive samples away); both interval ends are accepted"},
			Guards: map[string]map[string]int{
				"quick":    {"samples": 1000000, "resets": 1000, "samples_away_from_home": 100000, "calls": 50000},
				"thorough": {"samples": 30000000, "resets": 30000, "samples_away_from_home": 3000000},
			},
		},
	})
	vRegister("C13", &vProp{
		Cases: func(tier string) int {
			if tier == "thorough" {
				return 60000
			}
			return 2400
		},
		Run: vRunC13,
		Meta: vMeta{
			Level:       "exploration",
			Rule:        "case = record (npre 3..1000, length npre+1..~4000, signed/unsigned, content family: constant, full scale, alternating 0/65535, signed wrap-around, random, pulse, ramp, zero) optionally with projector/basis matrices (1-8 bases; random, identity-like, ill-scaled); oracle = exact rational / 300-bit float reference of every analysis value with tolerance 1e-9 x the largest magnitude entering the sum; also the float32 fields of the summary message",
			Assumptions: []string{"peak value follows the code's documented convention (maximum starts at the pretrigger mean, so peak >= 0)", "a NaN pulse RMS is accepted only when the true mean square is below the tolerance"},
			Guards: map[string]map[string]int{
				"quick":    {"records": 2000, "records_with_projectors": 800, "summary_fields": 3000, "distinct:kind": 8},
				"thorough": {"records": 50000, "records_with_projectors": 20000},
			},
		},
	})
}

// ---------------------------------------------------------------- C12 through a caller: the ROACH device path

type vRoachTap struct {
	*RoachSource
	mu     sync.Mutex
	first  []FrameIndex
	blocks [][][]RawType // block -> channel -> samples
}

func (t *vRoachTap) ProcessSegments(b *dataBlock) error {
	if b.err == nil && len(b.segments) > 0 {
		chs := make([][]RawType, len(b.segments))
		for i, seg := range b.segments {
			chs[i] = append([]RawType(nil), seg.rawData...)
		}
		t.mu.Lock()
		t.first = append(t.first, b.segments[0].firstFrameIndex)
		t.blocks = append(t.blocks, chs)
		t.mu.Unlock()
	}
	return t.RoachSource.ProcessSegments(b)
}

// vRunC12Roach: phase data reach the unwrapper through RoachDevice.readPackets in several data blocks (bursts of UDP
// packets more than one bundling period apart); the concatenated output must equal one unwrapper run over the whole stream.
func vRunC12Roach(c *vCase) {
	r := c.R
	port := vFreeUDPPort()
	nchan := 1 + r.Intn(3)
	nsamp := 10 + r.Intn(30)
	// (the ROACH device always unwraps, with its own bit counts: of the options it takes the bias and the pulse sign, whatever the
	// two Abaco switches say)
	opts := AbacoUnwrapOptions{RescaleRaw: vChance(r, 0.6), Unwrap: vChance(r, 0.6), Bias: vChance(r, 0.5), PulseSign: vPick(r, 1, -1), ResetAfter: 20000}
	if !opts.RescaleRaw {
		opts.Unwrap = false // (unwrapping without rescaling is a combination Configure refuses)
	}
	base := make([]int, nchan)
	step := make([]int, nchan)
	for i := range base {
		base[i] = r.Intn(65536)
		step[i] = vPick(r, 37, 900, 3000, -2500, 9000)
	}
	rawAt := func(ch int, s uint64) RawType { return RawType(uint16(base[ch] + step[ch]*int(s))) }
	mk := func(sampnum uint64) []byte {
		b := make([]byte, 16+2*nchan*nsamp)
		binary.BigEndian.PutUint16(b[2:], uint16(nchan))
		binary.BigEndian.PutUint16(b[4:], uint16(nsamp))
		binary.BigEndian.PutUint16(b[6:], 1)
		binary.BigEndian.PutUint64(b[8:], sampnum)
		for j := 0; j < nsamp; j++ {
			for ch := 0; ch < nchan; ch++ {
				binary.BigEndian.PutUint16(b[16+2*(ch+nchan*j):], uint16(rawAt(ch, sampnum+uint64(j))))
			}
		}
		return b
	}
	rs, _ := NewRoachSource()
	defer rs.Delete()
	if err := rs.Configure(&RoachSourceConfig{HostPort: []string{fmt.Sprintf("127.0.0.1:%d", port)}, Rates: []float64{20000}, AbacoUnwrapOptions: opts}); err != nil {
		c.Inconclusive("setup", "Roach configure: %v", err)
		return
	}
	conn, err := net.Dial("udp", fmt.Sprintf("127.0.0.1:%d", port))
	if err != nil {
		c.Inconclusive("setup", "%v", err)
		return
	}
	defer conn.Close()
	var next uint64
	send := func(n int) {
		for i := 0; i < n; i++ {
			conn.Write(mk(next))
			next += uint64(nsamp)
			time.Sleep(300 * time.Microsecond)
		}
	}
	// packets for the sampling phase of Start, from a helper goroutine until Start has returned
	stopFeed := make(chan struct{})
	feedDone := make(chan struct{})
	go func() {
		defer close(feedDone)
		for {
			select {
			case <-stopFeed:
				return
			default:
				send(1)
				time.Sleep(2 * time.Millisecond)
			}
		}
	}()
	tap := &vRoachTap{RoachSource: rs}
	queued := make(chan func())
	err = Start(tap, queued, 4, 16)
	close(stopFeed)
	<-feedDone
	if err != nil {
		c.Inconclusive("setup", "Roach start: %v", err)
		return
	}
	bursts := 2 + r.Intn(2)
	for b := 0; b < bursts; b++ {
		time.Sleep(160 * time.Millisecond) // longer than the 100 ms bundling period: the next packets form another block
		send(3 + r.Intn(8))
	}
	time.Sleep(250 * time.Millisecond)
	vWatched(c, "Stop", 20*time.Second, func() { rs.Stop() })
	tap.mu.Lock()
	defer tap.mu.Unlock()
	if len(tap.blocks) < 2 {
		c.Cov("roach_path_too_few_blocks", 1)
		return
	}
	// contiguity: a lost datagram makes the run unusable (not a verdict)
	pos := tap.first[0]
	for bi, chs := range tap.blocks {
		if tap.first[bi] != pos {
			c.Cov("roach_path_skipped_after_packet_loss", 1)
			return
		}
		pos += FrameIndex(len(chs[0]))
	}
	bias := 0 // the documented bias: 0.38 of a flux quantum (2^16 counts), with the sign of the pulses
	if opts.Bias {
		bias = 24904 * opts.PulseSign
	}
	for ch := 0; ch < nchan; ch++ {
		var raw, got []RawType
		s := uint64(tap.first[0])
		for _, chs := range tap.blocks {
			got = append(got, chs[ch]...)
		}
		for i := range got {
			raw = append(raw, rawAt(ch, s+uint64(i)))
		}
		ref := NewPhaseUnwrapper(roachFractionBits, roachBitsToDrop, true, bias, 20000, opts.PulseSign, false)
		ref.UnwrapInPlace(&raw)
		for i := range got {
			if got[i] != raw[i] {
				c.Violate("c12:device-path-split", "ROACH channel %d (options %+v): sample %d of the stream (block sizes %v) is %d, one unwrapper run over the whole stream gives %d: the result depends on how the device splits the stream into blocks",
					ch, opts, i, vBlockSizes(tap.blocks), got[i], raw[i])
				return
			}
		}
	}
	c.Cov("roach_path_runs", 1)
	c.Cov("roach_path_blocks", len(tap.blocks))
	c.Nontrivial()
}

func vBlockSizes(b [][][]RawType) []int {
	var out []int
	for _, chs := range b {
		out = append(out, len(chs[0]))
	}
	return out
}
