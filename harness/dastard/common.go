package PKGNAME

// Common in-package harness for package dastard: process set-up, an AnySource
// driven block by block through the real ProcessSegments, taps on the shared
// publish channels and the client-update channel, and stream generators.

import (
	"fmt"
	"io"
	"log"
	"math/rand"
	"os"
	"sync"
	"testing"
	"time"

	"github.com/spf13/viper"
	"github.com/usnistgov/dastard/lancero"
)

var vRecTap, vSumTap chan []*DataRecord // preset PubRecordsChan / PubSummariesChan (no ZMQ socket)

// vClientLog receives everything sent to clientMessageChan while the drainer is on.
var vClientMu sync.Mutex
var vClientLog []ClientUpdate
var vClientKeep bool
var vDrainStop chan struct{}
var vDrainDone chan struct{}

func vStartDrain() {
	vDrainStop = make(chan struct{})
	vDrainDone = make(chan struct{})
	go func() {
		defer close(vDrainDone)
		for {
			select {
			case <-vDrainStop:
				return
			case u := <-clientMessageChan:
				vClientMu.Lock()
				if vClientKeep {
					vClientLog = append(vClientLog, u)
				}
				vClientMu.Unlock()
			}
		}
	}()
}

func vStopDrain() {
	if vDrainStop != nil {
		close(vDrainStop)
		<-vDrainDone
		vDrainStop = nil
	}
}

func vClientReset(keep bool) {
	vClientMu.Lock()
	vClientLog = nil
	vClientKeep = keep
	vClientMu.Unlock()
}

func vClientSnapshot() []ClientUpdate {
	vClientMu.Lock()
	defer vClientMu.Unlock()
	out := make([]ClientUpdate, len(vClientLog))
	copy(out, vClientLog)
	return out
}

func TestMain(m *testing.M) {
	if os.Getenv("VERIF_LOG") == "" {
		log.SetOutput(io.Discard)
		lancero.SetLogOutput(io.Discard)
		ProblemLogger = log.New(io.Discard, "", 0)
		UpdateLogger = log.New(io.Discard, "", 0)
	}
	switch os.Getenv("VERIF_CHILD") {
	case "crash":
		vCrashChild() // C16: the re-executed binary that is killed during a configuration save
	case "resave":
		vResaveChild() // C16: the run after the killed one
	case "startup":
		vStartupChild() // C16: starts the real program in a private network namespace and reports what it announces
	case "restore":
		vRestoreChild() // C16: a fresh process restoring trigger settings from the file
	}
	// stdout is noisy (fmt.Printf in the code under test) but goes to the shard's log file.
	prop := os.Getenv("VERIF_PROP")
	switch prop {
	case "C14", "C16", "C17":
		// these use real sockets and/or the real client updater; they set themselves up
	default:
		vRecTap = make(chan []*DataRecord, 1<<14)
		vSumTap = make(chan []*DataRecord, 1<<14)
		PubRecordsChan = vRecTap
		PubSummariesChan = vSumTap
		vStartDrain()
	}
	os.Exit(m.Run())
}

// vDrainRecords empties the record tap (and the summaries tap, which carries the same slices).
func vDrainRecords() []*DataRecord {
	var out []*DataRecord
	for {
		select {
		case rs := <-vRecTap:
			out = append(out, rs...)
		default:
			for {
				select {
				case <-vSumTap:
				default:
					return out
				}
			}
		}
	}
}

// ---------------------------------------------------------------- a bare AnySource fed by the harness

const vT0Unix = 1700000000 // synthetic epoch of frame 0, seconds

type vFeed struct {
	ds         *AnySource
	nchan      int
	signed     []bool
	period     time.Duration
	firstFrame FrameIndex // frame number of truth[.][0]
	truth      [][]RawType
	pos        int // samples already delivered
	t0         time.Time
	jitter     []time.Duration // optional per-block jitter added to firstTime
	blockNo    int

	// info about the block last pushed
	lastBlockFirstFrame FrameIndex
	lastBlockFirstTime  time.Time
	lastBlockLen        int
}

func viperResetForFeed() { viper.Reset() }

func vNewAnySource(nchan int, period time.Duration) *AnySource {
	ds := new(AnySource)
	vInitAnySource(ds, nchan, period)
	return ds
}

func vInitAnySource(ds *AnySource, nchan int, period time.Duration) {
	ds.name = "VerifSource"
	ds.nchan = nchan
	ds.samplePeriod = period
	ds.sampleRate = 1e9 / float64(period.Nanoseconds())
	ds.rowColCodes = make([]RowColCode, nchan)
	for i := range ds.rowColCodes {
		ds.rowColCodes[i] = rcCode(0, i, 1, nchan)
	}
}

// vFeedRate, when > 0, is the exact sample rate given to the next feed's source.
var vFeedRate float64

// vNewFeed prepares an AnySource through the real PrepareChannels/PrepareRun.
func vNewFeed(nchan int, period time.Duration, npre, nsamp int, restored []FullTriggerState) (*vFeed, error) {
	viper.Reset()
	if restored != nil {
		viper.Set("trigger", restored)
	}
	ds := vNewAnySource(nchan, period)
	if vFeedRate > 0 {
		// the exact sample rate of a source whose period is not a whole number of ns (period = its ns-rounded value)
		ds.sampleRate = vFeedRate
	}
	if err := ds.PrepareChannels(); err != nil {
		return nil, err
	}
	if err := ds.PrepareRun(npre, nsamp); err != nil {
		return nil, err
	}
	viper.Reset()
	f := &vFeed{ds: ds, nchan: nchan, period: period, signed: make([]bool, nchan)}
	f.t0 = time.Unix(vT0Unix, 0)
	return f, nil
}

func (f *vFeed) close() {
	ds := f.ds
	if ds.numberWrittenTicker != nil {
		ds.numberWrittenTicker.Stop()
	}
	if ds.writingState.externalTriggerTicker != nil {
		ds.writingState.externalTriggerTicker.Stop()
	}
	if ds.writingState.dataDropTicker != nil {
		ds.writingState.dataDropTicker.Stop()
	}
}

func (f *vFeed) timeOfFrame(fr FrameIndex) time.Time {
	return f.t0.Add(time.Duration(int64(fr)) * f.period)
}

// push delivers the next n samples of every channel as one block through the real
// ProcessSegments and returns the records that reached the publish channel.
func (f *vFeed) push(n int, extTrig []int64, dropped int) ([]*DataRecord, error) {
	if n > len(f.truth[0])-f.pos {
		n = len(f.truth[0]) - f.pos
	}
	block := new(dataBlock)
	block.segments = make([]DataSegment, f.nchan)
	first := f.firstFrame + FrameIndex(f.pos)
	ft := f.timeOfFrame(first)
	if f.jitter != nil {
		ft = ft.Add(f.jitter[f.blockNo%len(f.jitter)])
	}
	for ch := 0; ch < f.nchan; ch++ {
		data := make([]RawType, n)
		copy(data, f.truth[ch][f.pos:f.pos+n])
		block.segments[ch] = DataSegment{rawData: data, framesPerSample: 1, framePeriod: f.period,
			firstFrameIndex: first, firstTime: ft, signed: f.signed[ch], droppedFrames: dropped}
	}
	block.nSamp = n
	block.externalTriggerRowcounts = extTrig
	f.lastBlockFirstFrame, f.lastBlockFirstTime, f.lastBlockLen = first, ft, n
	f.pos += n
	f.blockNo++
	err := f.ds.ProcessSegments(block)
	return vDrainRecords(), err
}

// ---------------------------------------------------------------- stream and partition generators

// vGenStream makes one channel's ground truth: noise floor, planted pulses of both
// polarities, and adversarial segments. Values are raw 16-bit patterns.
func vGenStream(r *rand.Rand, n int, signed bool, style int) []RawType {
	out := make([]RawType, n)
	base := 1000 + r.Intn(30000)
	if signed {
		base = r.Intn(8000) - 4000
	}
	noise := vPick(r, 0, 1, 3, 10)
	for i := range out {
		v := base
		if noise > 0 {
			v += r.Intn(2*noise+1) - noise
		}
		out[i] = RawType(uint16(int16(v)))
		if !signed {
			out[i] = RawType(uint16(v))
		}
	}
	add := func(i, v int) {
		if i < 0 || i >= n {
			return
		}
		if signed {
			x := int(int16(out[i])) + v
			if x > 32767 {
				x = 32767
			}
			if x < -32768 {
				x = -32768
			}
			out[i] = RawType(uint16(int16(x)))
		} else {
			x := int(out[i]) + v
			if x > 65535 {
				x = 65535
			}
			if x < 0 {
				x = 0
			}
			out[i] = RawType(uint16(x))
		}
	}
	// planted pulses
	npulse := 0
	switch style % 4 {
	case 0:
		npulse = 1 + n/(150+r.Intn(400))
	case 1:
		npulse = 1 + n/(40+r.Intn(60)) // crowded
	case 2:
		npulse = r.Intn(3)
	case 3:
		npulse = 1 + n/(300+r.Intn(900))
	}
	for k := 0; k < npulse; k++ {
		at := r.Intn(n)
		amp := 200 + r.Intn(6000)
		if vChance(r, 0.3) {
			amp = -amp
		}
		rise := 1 + r.Intn(8)
		decay := 5 + r.Intn(120)
		for j := 0; j < rise; j++ {
			add(at+j, amp*(j+1)/rise)
		}
		v := float64(amp)
		for j := rise; j < rise+6*decay; j++ {
			v *= 1 - 1/float64(decay)
			add(at+j, int(v))
		}
	}
	// adversarial segments
	if style >= 4 || vChance(r, 0.25) {
		nseg := 1 + r.Intn(3)
		for s := 0; s < nseg; s++ {
			a := r.Intn(n)
			l := 1 + r.Intn(1+n/8)
			kind := r.Intn(5)
			for i := a; i < a+l && i < n; i++ {
				switch kind {
				case 0: // full-scale square wave
					if (i/(1+s))%2 == 0 {
						out[i] = 0
					} else {
						out[i] = 65535
					}
				case 1:
					out[i] = 0
				case 2:
					out[i] = 65535
				case 3: // ramp
					out[i] = RawType(uint16(i * 37))
				case 4: // constant at sign boundary
					out[i] = 32768 - RawType(i%2)
				}
			}
		}
	}
	return out
}

// vGenPartition cuts n samples into blocks. kind selects the family.
func vGenPartition(r *rand.Rand, n, nsamp int, kind int) []int {
	var out []int
	left := n
	emit := func(k int) {
		if k < 1 {
			k = 1
		}
		if k > left {
			k = left
		}
		out = append(out, k)
		left -= k
	}
	switch kind % 6 {
	case 0: // uniform 1..3*nsamp
		for left > 0 {
			emit(1 + r.Intn(3*nsamp))
		}
	case 1: // many tiny
		for left > 0 {
			emit(1 + r.Intn(4))
		}
	case 2: // geometric-ish mixture
		for left > 0 {
			if vChance(r, 0.5) {
				emit(1 + r.Intn(5))
			} else {
				emit(1 + r.Intn(5*nsamp))
			}
		}
	case 3: // one giant block
		emit(left)
	case 4: // shorter than a record, fixed
		k := 1 + r.Intn(nsamp)
		for left > 0 {
			emit(k)
		}
	case 5: // a few big blocks
		for left > 0 {
			emit(nsamp + r.Intn(6*nsamp))
		}
	}
	return out
}

func vPartitionName(kind int) string {
	return []string{"uniform", "tiny", "mixture", "giant", "subrecord", "big"}[kind%6]
}

func vSigned(v RawType, signed bool) int {
	if signed {
		return int(int16(v))
	}
	return int(v)
}

func vFmtRec(r *DataRecord) string {
	return fmt.Sprintf("{ch=%d frame=%d pre=%d len=%d}", r.channelIndex, r.trigFrame, r.presamples, len(r.data))
}

// ---------------------------------------------------------------- flow control for scripted hardware
//
// The harnesses shorten the read periods of the Abaco and Lancero readers (hook verifDuration) to
// run scripts quickly. The readers' 100-entry buffer then represents 0.1-0.5 s instead of 5 s of
// slack, and on a loaded machine the reader could outrun block processing and trip the code's own
// "internal buffersChan full" panic. Scripted producers therefore wait (bounded) while the reader's
// buffer holds more than vFlowWindow entries: the scaled-down system keeps the margin of the real
// one. A consumer that never catches up only makes the producer slow, never stuck.

const vFlowWindow = 40

func vFlowWait(backlog func() int) {
	if backlog == nil {
		return
	}
	for i := 0; i < 3000 && backlog() > vFlowWindow; i++ {
		time.Sleep(time.Millisecond)
	}
}
