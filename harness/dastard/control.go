package PKGNAME

// C11 — control requests are serialised with data, answered exactly once, and never wedge
// or crash the server.
//
// Drive: an in-package SourceControl wired the way RunRPCServer wires it (status channel
// drained, heartbeat consumer running); one client goroutine calls the RPC methods (what a
// single JSON-RPC connection does). Sources: Triangle (fast blocks), a scripted Lancero
// card (mix/coupling requests), ErroringSource and a harness source that embeds the real
// AnySource and ends itself (error block / closed channel) at a scripted moment, so that
// requests arrive before, while and after the source stops on its own.
//
// Monitors: (1) reply class against a small model of the statement, (2) span overlap between
// request effects and ProcessSegments (hook spans), (3) block-processing progress after every
// reply, (4) every call returns (wait-state analysis of goroutine dumps, §2.6), (5) process
// crashes are attributed to the journaled case by the driver.

import (
	"fmt"
	"math"
	"os"
	"path/filepath"
	"runtime"
	"sort"
	"strings"
	"sync"
	"sync/atomic"
	"time"

	"github.com/spf13/viper"
	"gonum.org/v1/gonum/mat"
)

// ---------------------------------------------------------------- self-ending source

type vSelfEnd struct {
	AnySource
	mode     int // 0: error block, 1: closed channel
	endAfter int
	endNow   chan struct{}
	period   time.Duration
	sent     int32
	ended    int32
	offering int32 // 1 while the producer waits to hand over a block
}

func vNewSelfEnd(nchan int, mode, endAfter int) *vSelfEnd {
	s := new(vSelfEnd)
	vInitAnySource(&s.AnySource, nchan, 10*time.Microsecond)
	s.name = "SelfEnd"
	s.mode, s.endAfter = mode, endAfter
	s.endNow = make(chan struct{})
	s.period = 2 * time.Millisecond
	return s
}

func (s *vSelfEnd) Sample() error { return nil }

func (s *vSelfEnd) makeBlock(n int) *dataBlock {
	block := new(dataBlock)
	block.segments = make([]DataSegment, s.nchan)
	np := 200
	for ch := range block.segments {
		d := make([]RawType, np)
		for i := range d {
			d[i] = RawType(1000 + (i*7+n)%50)
		}
		block.segments[ch] = DataSegment{rawData: d, framesPerSample: 1, framePeriod: s.samplePeriod,
			firstFrameIndex: FrameIndex(n * np), firstTime: time.Now()}
	}
	block.nSamp = np
	return block
}

func (s *vSelfEnd) StartRun() error {
	go func() {
		n := 0
		var prepared chan *dataBlock
		stopPrep := make(chan struct{})
		defer close(stopPrep)
		finish := func() {
			atomic.StoreInt32(&s.ended, 1)
			if s.mode == 0 {
				b := new(dataBlock)
				b.err = fmt.Errorf("scripted source error")
				select {
				case s.nextBlock <- b:
				case <-s.abortSelf:
					close(s.nextBlock)
				}
			} else {
				close(s.nextBlock)
			}
		}
		for {
			if s.period == 0 {
				// flood: the next block is on offer as soon as the previous one has been taken
				select {
				case <-s.abortSelf:
					close(s.nextBlock)
					return
				case <-s.endNow:
					finish()
					return
				default:
				}
			} else {
				select {
				case <-s.abortSelf:
					close(s.nextBlock)
					return
				case <-s.endNow:
					finish()
					return
				case <-time.After(s.period):
				}
			}
			if s.endAfter > 0 && n >= s.endAfter {
				finish()
				return
			}
			var block *dataBlock
			if s.period == 0 {
				// blocks prepared ahead by a second goroutine: this one is back at the hand-over at once
				if prepared == nil {
					prepared = make(chan *dataBlock, 64)
					go func() {
						for k := 0; ; k++ {
							select {
							case prepared <- s.makeBlock(k):
							case <-stopPrep:
								return
							}
						}
					}()
				}
				block = <-prepared
			} else {
				block = s.makeBlock(n)
			}
			atomic.StoreInt32(&s.offering, 1)
			select {
			case s.nextBlock <- block:
				atomic.StoreInt32(&s.offering, 0)
				n++
				atomic.AddInt32(&s.sent, 1)
			case <-s.abortSelf:
				close(s.nextBlock)
				return
			case <-s.endNow:
				finish()
				return
			}
		}
	}()
	return nil
}

// ---------------------------------------------------------------- hook monitor

type vCtlMon struct {
	processActive int32
	effectActive  int32
	processEnds   int64
	effects       int64
	overlap       atomic.Value // string
	holdWanted    int32        // the next ProcessSegments is to be held until released
	held          chan struct{}
	release       chan struct{}
	heldCount     int64
	queuedBefore  int64
	offering      *int32       // backlog sessions: 1 while the source is waiting to hand over a block
	plantIn       atomic.Value // string: base path in which the next START's state file is to be made uncreatable
	planted       int64
	startHold     int32 // the next Start is held right after the source has been sampled (a second client polls the status meanwhile)
	startHeld     chan struct{}
	startRelease  chan struct{}
}

func (m *vCtlMon) handlers() *verifHandlers {
	return &verifHandlers{
		Point: func(name string) {
			switch name {
			case "write.start.dirmade":
				// single I/O fault: the experiment-state file of the run that is being started cannot be created
				if base, _ := m.plantIn.Load().(string); base != "" {
					m.plantIn.Store("")
					today := time.Now().Format("20060102")
					runs, _ := os.ReadDir(filepath.Join(strings.TrimPrefix(strings.TrimPrefix(base, "full:"), "exttrig:"), today))
					newest := ""
					for _, rd := range runs {
						if rd.IsDir() && len(rd.Name()) == 4 && rd.Name() > newest {
							newest = rd.Name()
						}
					}
					if newest != "" {
						target := filepath.Join(base, today, newest, fmt.Sprintf("%s_run%s_experiment_state.txt", today, newest))
						if strings.HasPrefix(base, "exttrig:") {
							// the external-trigger file of this run cannot be created
							target = filepath.Join(base[8:], today, newest, fmt.Sprintf("%s_run%s_external_trigger.bin", today, newest))
							if os.MkdirAll(target, 0o755) == nil {
								atomic.AddInt64(&m.planted, 1)
							}
						} else if strings.HasPrefix(base, "full:") {
							// the file can be created but every write to it fails (a full disk)
							target = filepath.Join(base[5:], today, newest, fmt.Sprintf("%s_run%s_experiment_state.txt", today, newest))
							if os.Symlink("/dev/full", target) == nil {
								atomic.AddInt64(&m.planted, 1)
							}
						} else if os.MkdirAll(target, 0o755) == nil {
							atomic.AddInt64(&m.planted, 1)
						}
					}
				}
			case "start.sampled":
				if atomic.CompareAndSwapInt32(&m.startHold, 1, 0) {
					select {
					case m.startHeld <- struct{}{}:
					default:
					}
					select {
					case <-m.startRelease:
					case <-time.After(500 * time.Millisecond): // fall-through: a hold can never manufacture a deadlock
					}
				}
			case "core.process.end":
				atomic.AddInt64(&m.processEnds, 1)
			case "core.idle":
				// backlog sessions: the core loop reaches its next block boundary only when the source already offers a block
				if f := m.offering; f != nil {
					for i := 0; i < 1000 && atomic.LoadInt32(f) == 0; i++ {
						time.Sleep(20 * time.Microsecond)
					}
					time.Sleep(20 * time.Microsecond) // from "about to offer" to parked in the send
					runtime.Gosched()
				}
			case "rpc.queue.before":
				atomic.AddInt64(&m.queuedBefore, 1)
			}
		},
		Span: func(name string) func() {
			if name == "process" {
				if atomic.LoadInt32(&m.effectActive) > 0 {
					m.overlap.Store("ProcessSegments began while a request effect was running")
				}
				atomic.AddInt32(&m.processActive, 1)
				if atomic.CompareAndSwapInt32(&m.holdWanted, 1, 0) {
					atomic.AddInt64(&m.heldCount, 1)
					select {
					case m.held <- struct{}{}:
					default:
					}
					select {
					case <-m.release:
					case <-time.After(100 * time.Millisecond): // fall-through: a hold can never manufacture a deadlock
					}
				}
				return func() { atomic.AddInt32(&m.processActive, -1) }
			}
			if strings.HasPrefix(name, "effect.") {
				if atomic.LoadInt32(&m.processActive) > 0 {
					m.overlap.Store(name + " began while ProcessSegments was running")
				}
				atomic.AddInt32(&m.effectActive, 1)
				atomic.AddInt64(&m.effects, 1)
				return func() { atomic.AddInt32(&m.effectActive, -1) }
			}
			return func() {}
		},
		Duration: func(name string, d time.Duration) time.Duration {
			if name == "lancero.readPeriod" {
				return 5 * time.Millisecond // 100 buffered reads = 500 ms of slack for a held block
			}
			return d
		},
	}
}

// ---------------------------------------------------------------- model + client

type vCtl struct {
	c    *vCase
	sc   *SourceControl
	mon  *vCtlMon
	kind string // triangle | lancero | selfend | erroring
	self *vSelfEnd
	dir  string
	// model
	active       bool // a source is running according to the statement (started, not stopped, not ended by itself)
	selfEnded    bool
	settled      bool
	nchan        int
	npre, ns     int
	wActive      bool
	wOff         bool // the active writing session includes OFF files
	wPaused      bool
	wDir         string
	hasProj      map[int]bool
	sureProj     map[int]bool // channels that certainly have a model loaded
	comment      string
	commentBad   bool // comment.txt has been made uncreatable
	mapLoaded    bool
	mapPixels    int
	chanNum0     int  // channel number of channel index 0
	archiving    bool // a raw-data request may still be pending
	lenUnknown   bool // a refused length change may have been applied to some channels: shapes are no longer predictable
	stateFull    bool // writes to the current run's experiment-state file fail: label requests may be refused
	flood        bool // the source always has a block on offer
	forceExtTrig bool // the next eligible START of this session gets the external-trigger-file fault
	emtOn        bool // an edge-multi request was accepted: validity of record lengths now also depends on its parameters
	hist         []string
	dead         bool
	stLabels     []string // lines the experiment-state file of the current run must hold (START, accepted labels)
	stKnown      bool     // false when a request with an open outcome may have added or lost a line
}

func (k *vCtl) note(format string, a ...any) {
	k.hist = append(k.hist, fmt.Sprintf(format, a...))
	if len(k.hist) > 60 {
		k.hist = k.hist[len(k.hist)-60:]
	}
}

// do issues one request with the liveness watchdog and checks the reply class.
// want: "ok", "err" or "any".
func (k *vCtl) do(what string, want string, f func() error) (err error, returned bool) {
	if k.dead {
		return nil, false
	}
	c := k.c
	k.note("%s (want %s)", what, want)
	var e error
	answered := make(chan struct{})
	if k.flood && k.active && !k.selfEnded {
		// starvation monitor (logical: blocks processed while the request waits; the 3 s are only a lower bound)
		p0, t0 := atomic.LoadInt64(&k.mon.processEnds), time.Now()
		go func() {
			for {
				select {
				case <-answered:
					return
				case <-time.After(50 * time.Millisecond):
				}
				if n := atomic.LoadInt64(&k.mon.processEnds) - p0; n > 5000 && time.Since(t0) > 2*time.Second {
					c.Violate("c11:request-starved", "request %s has not been answered while the source processed %d further blocks (a block was on offer at every block boundary)\nhistory: %v", what, n, k.hist)
					close(k.self.endNow) // end the flood so that the process can go on
					return
				}
			}
		}()
	}
	ok := vWatched(c, "request "+strings.SplitN(what, "(", 2)[0], 15*time.Second, func() { e = f() })
	close(answered)
	if c.Violated() && !k.dead {
		k.dead = true
		return nil, false
	}
	if !ok {
		k.dead = true
		if c.Violated() {
			c.mu.Lock()
			c.res.Detail += fmt.Sprintf("\nsource=%s request=%s\nhistory: %v", k.kind, what, k.hist)
			c.mu.Unlock()
		}
		return nil, false
	}
	c.Cov("requests", 1)
	cls := "ok"
	if e != nil {
		cls = "err"
	}
	c.Cov("reply_"+cls+"_"+strings.SplitN(what, "(", 2)[0], 1)
	if want != "any" && want != cls {
		c.Violate("c11:reply-class:"+strings.SplitN(what, "(", 2)[0]+":want-"+want, "request %s on source %s: the caller received %s (%v), the statement requires %s\nhistory: %v", what, k.kind, cls, e, want, k.hist)
		k.dead = true
		return e, true
	}
	if v := k.mon.overlap.Load(); v != nil && v.(string) != "" {
		c.Violate("c11:overlap", "%s (after request %s)\nhistory: %v", v.(string), what, k.hist)
		k.dead = true
		return e, true
	}
	if !strings.HasPrefix(what, "Stop(") {
		k.progress(what)
	}
	return e, true
}

// progress: after a reply, block processing must go on (unless the source has ended).
func (k *vCtl) progress(after string) {
	if k.dead || !k.active || k.selfEnded {
		return
	}
	c := k.c
	start := atomic.LoadInt64(&k.mon.processEnds)
	t0 := time.Now()
	for atomic.LoadInt64(&k.mon.processEnds) < start+2 {
		time.Sleep(500 * time.Microsecond)
		if k.kind == "selfend" && atomic.LoadInt32(&k.self.ended) == 1 {
			return
		}
		if time.Since(t0) > 15*time.Second {
			d1 := vDump()
			time.Sleep(2 * time.Second)
			d2 := vDump()
			if atomic.LoadInt64(&k.mon.processEnds) >= start+2 {
				return
			}
			g1, g2 := vFindBlock(d1, "dastard.CoreLoop"), vFindBlock(d2, "dastard.CoreLoop")
			switch {
			case g1 == "" && g2 == "":
				c.Violate("c11:core-loop-gone", "after the reply to %s no block was processed for 17 s and no CoreLoop goroutine exists although the source was not stopped\nhistory: %v", after, k.hist)
			case vFrames(g1) == vFrames(g2) && !vAnyRunnableRepo(d2):
				c.Violate("c11:data-stalled@"+vTopRepoFrame(g2), "after the reply to %s block processing stopped: the core loop is parked in the same frames in two dumps 2 s apart and no repository goroutine is runnable\n%s\nhistory: %v", after, vTrim(g2, 2500), k.hist)
			default:
				c.Inconclusive("slow:progress", "no block processed for 17 s after %s, wait-state analysis not conclusive", after)
			}
			k.dead = true
			return
		}
	}
	c.Cov("progress_checks", 1)
}

func vFindBlock(dump, needle string) string {
	for _, b := range strings.Split(dump, "\n\n") {
		if strings.Contains(b, needle) {
			return b
		}
	}
	return ""
}

// ---------------------------------------------------------------- set-up of the sources

// polledStart: a second client (another connection, so another goroutine of the server) asks for all status while this Start is under way:
// the source has been sampled and is being prepared. The request does not go through the queue; it must not disturb the Start.
func (k *vCtl) polledStart() func() {
	m := k.mon
	for len(m.startHeld) > 0 {
		<-m.startHeld
	}
	atomic.StoreInt32(&m.startHold, 1)
	polled := make(chan bool, 1)
	cancel := make(chan struct{})
	go func() {
		select {
		case <-m.startHeld:
		case <-cancel: // the Start returned without reaching that point
			polled <- false
			return
		}
		var s string
		var okay bool
		ok := vWatched(k.c, "request SendAllStatus (second client, during Start)", 15*time.Second, func() { k.sc.SendAllStatus(&s, &okay) })
		select {
		case m.startRelease <- struct{}{}:
		case <-time.After(time.Second):
		}
		polled <- ok
	}()
	return func() {
		atomic.StoreInt32(&m.startHold, 0)
		close(cancel)
		if <-polled {
			k.note("(a second client asked for all status while that Start was preparing the source)")
			k.c.Cov("starts_polled_by_a_second_client", 1)
		}
	}
}

func (k *vCtl) startSource() bool {
	sc := k.sc
	var okay bool
	k.npre, k.ns = 8, 32
	sc.status.Npresamp, sc.status.Nsamples = k.npre, k.ns
	if (k.kind == "triangle" || k.kind == "lancero") && k.c.Idx%4 == 1 {
		defer k.polledStart()()
	}
	switch k.kind {
	case "triangle":
		k.nchan = 4
		if err := sc.ConfigureTriangleSource(&TriangleSourceConfig{Nchan: 4, SampleRate: 200000, Min: 100, Max: 400}, &okay); err != nil {
			k.c.Inconclusive("setup", "%v", err)
			return false
		}
		name := "TRIANGLESOURCE"
		err, ret := k.do("Start(triangle)", "ok", func() error { return sc.Start(&name, &okay) })
		if err != nil || !ret {
			return false
		}
		k.chanNum0 = 0
	case "lancero":
		card := vEndlessCard(3, 2, uint64(k.c.R.Int63()))
		ls := sc.lancero
		card.backlog = func() int { return len(ls.buffersChan) }
		ls.nsamp = 1
		dev := &LanceroDevice{devnum: 0, nrows: 3, lsync: 2000, clockMHz: 125, card: card}
		ls.devices = map[int]*LanceroDevice{0: dev}
		ls.active = []*LanceroDevice{dev}
		ls.ncards, ls.clockMHz, ls.firstRowChanNum = 1, 125, 1
		ls.configError = nil
		k.nchan = 12
		name := "LANCEROSOURCE"
		err, ret := k.do("Start(lancero)", "ok", func() error { return sc.Start(&name, &okay) })
		if err != nil || !ret {
			return false
		}
		k.chanNum0 = 1
	case "erroring":
		k.nchan = 1
		name := "ERRORINGSOURCE"
		err, ret := k.do("Start(erroring)", "ok", func() error { return sc.Start(&name, &okay) })
		if err != nil || !ret {
			return false
		}
		k.active = true
		k.selfEnded = true // it ends itself with its first block
		for i := 0; i < 2000 && sc.erroring.GetState() != Inactive; i++ {
			time.Sleep(time.Millisecond)
		}
	case "selfend":
		k.nchan = 3
		k.self = vNewSelfEnd(3, k.c.R.Intn(2), 0)
		if k.c.Idx%24 == 3 {
			// a source that always has the next block on offer (processing has fallen behind the producer): requests must still get their turn
			k.self.period = 0
			k.flood = true
			k.mon.offering = &k.self.offering
			k.c.Cov("sessions_with_block_backlog", 1)
		}
		sc.ActiveSource = k.self
		sc.status.SourceName = "SelfEnd"
		sc.status.Running = true
		if err := Start(k.self, sc.queuedRequests, k.npre, k.ns); err != nil {
			k.c.Inconclusive("setup", "%v", err)
			return false
		}
		sc.isSourceActive = true
		sc.status.Nchannels = 3
		k.chanNum0 = 0
	}
	k.active = true
	k.hasProj = map[int]bool{}
	k.sureProj = map[int]bool{}
	return true
}

// ---------------------------------------------------------------- requests

// gate: "" while a source runs normally, "err" when none runs (never started, stopped, or ended by itself and
// settled), "any" while a self-termination is still in flight (the request may or may not get in before the end).
func (k *vCtl) gate() string {
	if !k.active {
		return "err"
	}
	if k.selfEnded {
		if k.settled {
			return "err"
		}
		if k.sc.ActiveSource.GetState() == Inactive {
			k.settled = true
			return "err"
		}
		return "any"
	}
	return ""
}

// queuedWantEarly: for requests whose arguments are checked before the source check ("err" stays "err").
func (k *vCtl) queuedWantEarly(want string) string {
	if want == "err" {
		return "err"
	}
	return k.queuedWant(want)
}

func (k *vCtl) queuedWant(validIfActive string) string {
	if g := k.gate(); g != "" {
		return g
	}
	return validIfActive
}

func (k *vCtl) reqTriggers() {
	r := k.c.R
	var idx []int
	want := "ok"
	switch r.Intn(8) {
	case 0:
		idx = []int{-1}
		want = "err"
	case 1:
		idx = []int{0, k.nchan}
		want = "err"
	case 2:
		idx = []int{}
		want = "err"
	case 3:
		idx = nil
		want = "err"
	case 4:
		idx = []int{1 << 40}
		want = "err"
	case 5:
		idx = []int{0, -7, 1}
		want = "err"
	default:
		for i := 0; i < k.nchan; i++ {
			if vChance(r, 0.6) {
				idx = append(idx, i)
			}
		}
		if len(idx) == 0 {
			idx = []int{0}
		}
	}
	fts := FullTriggerState{ChannelIndices: idx}
	if want == "ok" && vChance(r, 0.25) {
		// edge-multi through the RPC-compatible fields, all three record modes (incl. invalid combinations)
		fts.EdgeMulti = true
		fts.EdgeMultiLevel = int32(vPick(r, 3, 5, 20, -4))
		fts.EdgeMultiVerifyNMonotone = vPick(r, 1, 1, 2)
		fts.EdgeMultiMakeShortRecords = vChance(r, 0.5)
		fts.EdgeMultiMakeContaminatedRecords = vChance(r, 0.3)
		fts.EdgeMultiNoise = vChance(r, 0.1)
		fts.EdgeMultiDisableZeroThreshold = vChance(r, 0.5)
		if fts.EdgeMultiNoise || (fts.EdgeMultiMakeShortRecords && fts.EdgeMultiMakeContaminatedRecords) {
			want = "err"
		} else {
			want = "any" // validity of the remaining parameter combinations is not fixed by the statement
			if fts.EdgeMultiMakeShortRecords && k.gate() == "" {
				// variable-length records on a channel that has a model loaded cannot be analysed (the server would crash on the
				// first short record): such a request has to be answered with an error
				for _, ch := range idx {
					if k.sureProj[ch] {
						want = "err"
						k.c.Cov("variable_length_requests_on_channels_with_model", 1)
						break
					}
				}
			}
		}
		k.c.Cov("edge_multi_requests", 1)
		var okay bool
		err, ret := k.do(fmt.Sprintf("ConfigureTriggers(%v,edge-multi short=%v contaminated=%v level=%d)", idx, fts.EdgeMultiMakeShortRecords, fts.EdgeMultiMakeContaminatedRecords, fts.EdgeMultiLevel),
			k.queuedWantEarly(want), func() error { return k.sc.ConfigureTriggers(&fts, &okay) })
		if ret && want == "any" {
			// also when the reply is an error: the request is applied channel by channel, and a channel that refuses it
			// (e.g. variable-length records on a channel with projectors) comes after channels that have accepted it
			_ = err
			k.emtOn = true
		}
		return
	}
	fts.AutoTrigger = vChance(r, 0.7)
	fts.AutoDelay = time.Duration(r.Intn(3)) * time.Millisecond
	fts.LevelTrigger, fts.LevelRising, fts.LevelLevel = vChance(r, 0.5), true, 200
	fts.EdgeTrigger, fts.EdgeRising, fts.EdgeLevel = vChance(r, 0.5), true, 40
	var okay bool
	k.do(fmt.Sprintf("ConfigureTriggers(%v)", idx), k.queuedWant(want), func() error { return k.sc.ConfigureTriggers(&fts, &okay) })
}

func (k *vCtl) reqPulseLengths() {
	r := k.c.R
	type pl struct{ ns, npre int }
	p := vPick(r, pl{0, 4}, pl{-5, 3}, pl{16, 0}, pl{16, 16}, pl{16, 20}, pl{16, 2}, pl{k.ns, k.npre}, pl{40, 10}, pl{24, 6}, pl{64, 3}, pl{4, 3},
		pl{k.ns, k.npre + 1}, pl{k.ns, 3}, pl{k.ns + 8, k.npre}, // also: only one of the two lengths changes
		pl{1200000000, 100}, pl{1 << 31, 8}, pl{1<<40 + 50, 10}) // absurd lengths: refused or not, the server must survive them
	huge := p.ns > 1<<28
	if huge {
		k.c.Cov("absurd_record_lengths_requested", 1)
	}
	for rep := 0; rep < 2; rep++ {
		want := "ok"
		switch {
		case p.ns <= 0 || p.npre <= 0:
			want = "err"
		case huge && !k.wActive:
			want = "any"
		case p.ns == k.ns && p.npre == k.npre:
			want = "ok"
		case k.wActive:
			want = "err"
		case p.npre < 3 || p.ns < p.npre+1:
			want = "err"
		case k.emtOn:
			want = "any" // edge-multi parameters restrict the admissible lengths further
		}
		if g := k.gate(); g != "" {
			// the non-queued early answers (non-positive, unchanged) may come before the source check
			want = "any"
			if g == "err" && p.ns > 0 && p.npre > 0 && !(p.ns == k.ns && p.npre == k.npre) {
				want = "err"
			}
		}
		if !(p.ns == k.ns && p.npre == k.npre) {
			k.sureProj = map[int]bool{} // whatever the outcome, models may have been dropped on some channels
		}
		var okay bool
		err, ret := k.do(fmt.Sprintf("ConfigurePulseLengths(nsamp=%d,npre=%d)", p.ns, p.npre), want, func() error { return k.sc.ConfigurePulseLengths(SizeObject{Nsamp: p.ns, Npre: p.npre}, &okay) })
		if ret && want == "any" && err != nil && !huge {
			k.lenUnknown = true // the change may have been applied to some channels only
		}
		if ret && huge && err == nil {
			k.lenUnknown = true // (records of that length never complete; what else still fits is no longer predictable)
			k.hasProj, k.sureProj = map[int]bool{}, map[int]bool{}
		}
		// (also while a source is ending itself: a request that still got through has changed the lengths the server compares the next one with)
		if ret && err == nil && (want == "ok" || want == "any") && !(p.ns == k.ns && p.npre == k.npre) && !huge {
			k.ns, k.npre = p.ns, p.npre
			k.hasProj = map[int]bool{} // projectors sized for the old length no longer fit; the model forgets them conservatively
		}
		// a refused request is refused again when it is repeated (the server must not have remembered what it refused)
		if !(ret && err != nil && want == "err" && p.ns > 0 && p.npre > 0 && !k.dead && vChance(r, 0.5)) {
			break
		}
		k.c.Cov("refused_length_requests_repeated", 1)
	}
}

func (k *vCtl) reqProjectors() {
	r := k.c.R
	nb := 1 + r.Intn(3)
	ch := vPick(r, 0, k.nchan-1, r.Intn(k.nchan))
	rows, cols, brows, bcols := nb, k.ns, k.ns, nb
	pb64, bb64 := "", ""
	want := "ok"
	kind := r.Intn(10)
	switch kind {
	case 0:
		ch, want = -1, "err"
	case 1:
		ch, want = k.nchan, "err"
	case 2:
		cols, want = k.ns+1, "err"
	case 3:
		brows, want = k.ns-1, "err"
	case 4:
		bcols, want = nb+1, "err"
	}
	mk := func(rw, cl int) string {
		d := make([]float64, rw*cl)
		for i := range d {
			d[i] = r.NormFloat64()
		}
		return vMatB64(mat.NewDense(rw, cl, d))
	}
	pb64, bb64 = mk(rows, cols), mk(brows, bcols)
	switch kind {
	case 5:
		pb64, want = "!!!not base64!!!", "err"
	case 6:
		bb64, want = "", "err" // empty matrix bytes
	case 7:
		pb64, want = pb64[:len(pb64)/2/4*4], "err" // truncated matrix
	case 8:
		bb64, want = "AAAA", "err"
	}
	if k.wActive && k.wOff && want == "ok" {
		want = "any" // a channel whose OFF file is open refuses a new model; which channels have one depends on what was loaded at START
	}
	w := want
	if (k.lenUnknown || k.emtOn) && want == "ok" {
		want, w = "any", "any" // shapes unknown, or refused because the channel makes variable-length records
	}
	if kind < 5 || kind == 9 {
		w = k.queuedWant(want) // these reach the queue; the malformed ones are refused before
	}
	var okay bool
	err, ret := k.do(fmt.Sprintf("ConfigureProjectorsBasis(ch=%d,kind=%d)", ch, kind), w, func() error {
		return k.sc.ConfigureProjectorsBasis(&ProjectorsBasisObject{ChannelIndex: ch, ProjectorsBase64: pb64, BasisBase64: bb64, ModelDescription: "m"}, &okay)
	})
	if ret && err == nil && (w == "ok" || (w == "any" && want != "err")) && ch >= 0 && ch < k.nchan {
		k.hasProj[ch] = true
		if w == "ok" {
			k.sureProj[ch] = true // (no doubt about shapes, edge-multi or the source: the channel has a model now)
			if !k.dead && k.gate() == "" && vChance(r, 0.5) {
				// straight away: variable-length edge-multi records requested for this very channel must be refused
				fts := FullTriggerState{ChannelIndices: []int{ch}}
				fts.EdgeMulti, fts.EdgeMultiLevel, fts.EdgeMultiVerifyNMonotone, fts.EdgeMultiMakeShortRecords = true, 5, 1, true
				k.c.Cov("variable_length_requests_on_channels_with_model", 1)
				k.do(fmt.Sprintf("ConfigureTriggers([%d],edge-multi short=true on a channel with a model)", ch), "err", func() error { return k.sc.ConfigureTriggers(&fts, &okay) })
			} else if !k.dead && k.gate() == "" && !k.wActive && !k.emtOn && !k.lenUnknown && vChance(r, 0.6) {
				// straight away: only the record length changes (the model no longer fits and must go), then the channel triggers
				ns2 := k.ns + 8
				if err, ret := k.do(fmt.Sprintf("ConfigurePulseLengths(nsamp=%d,npre=%d) [only the length, on a channel with a model]", ns2, k.npre), "ok", func() error {
					return k.sc.ConfigurePulseLengths(SizeObject{Nsamp: ns2, Npre: k.npre}, &okay)
				}); ret && err == nil {
					k.ns = ns2
					k.hasProj, k.sureProj = map[int]bool{}, map[int]bool{}
					fts := FullTriggerState{ChannelIndices: []int{ch}}
					fts.AutoTrigger = true
					k.do(fmt.Sprintf("ConfigureTriggers([%d],auto) [after the length change]", ch), "ok", func() error { return k.sc.ConfigureTriggers(&fts, &okay) })
					k.c.Cov("length_only_changes_on_channels_with_model", 1)
				}
			}
		}
	}
}

func (k *vCtl) reqWriteControl() {
	r := k.c.R
	req := vPick(r, "START", "START", "START", "STOP", "PAUSE", "UNPAUSE", "UNPAUSE lbl", "UNPAUSEx", "start", "bogus", "")
	l22, l3, of := vChance(r, 0.7), vChance(r, 0.4), vChance(r, 0.3)
	path := k.dir
	fault := ""
	up := strings.ToUpper(req)
	want := "ok"
	anyProj := len(k.hasProj) > 0
	switch {
	case strings.HasPrefix(up, "PAUSE"):
	case strings.HasPrefix(up, "UNPAUSE"):
		if len(req) > 7 && (req[7] != ' ' || len(req) == 8 || !k.wActive || k.stateFull) {
			want = "err"
		}
	case strings.HasPrefix(up, "STOP"):
		if k.stateFull && k.wActive {
			want = "any" // the STOP line cannot be written either
		}
	case strings.HasPrefix(up, "START"):
		switch {
		case k.wActive || !(l22 || l3 || of) || (of && !anyProj):
			want = "err"
		default:
			if vChance(r, 0.15) {
				// single I/O fault: the experiment-state file cannot be created (a directory is in its place)
				k.mon.plantIn.Store(k.dir)
				fault = " [experiment-state file uncreatable]"
				want = "err"
				k.c.Cov("io_fault_state_file", 1)
			} else if k.kind == "lancero" && vCtlFocus == "" && (vChance(r, 0.12) || k.forceExtTrig) {
				k.forceExtTrig = false
				// single I/O fault: the external-trigger file of this run cannot be created (only the TDM source
				// delivers external triggers). The file is created by block processing, not by the request.
				k.mon.plantIn.Store("exttrig:" + k.dir)
				fault = " [external-trigger file uncreatable]"
				k.c.Note("fault:external-trigger-file-uncreatable")
				k.c.Cov("io_fault_exttrig_file", 1)
			} else if vChance(r, 0.12) {
				// single I/O fault: every write to the experiment-state file of this run fails (disk full)
				k.mon.plantIn.Store("full:" + k.dir)
				fault = " [writes to the experiment-state file fail]"
				want = "any"
				k.stateFull = true
				k.c.Cov("io_fault_state_file_full", 1)
			} else if vChance(r, 0.15) {
				// single I/O fault: the output base path is a regular file
				path = filepath.Join(k.dir, "not_a_directory")
				os.WriteFile(path, []byte("x"), 0o644)
				fault = " [base path is a file]"
				want = "err"
			}
			if k.mapLoaded && want == "ok" {
				// a map whose pixel list does not cover the channel numbers must be refused, not crash
				first, last := k.chanNum0, k.chanNum0+k.nchan-1
				if k.kind == "lancero" {
					last = k.chanNum0 + k.nchan/2 - 1
				}
				if first < 1 || last > k.mapPixels || k.mapPixels != last-first+1 {
					want = "err"
				}
			}
		}
	default:
		want = "err"
	}
	w := k.queuedWant(want)
	var okay bool
	cfg := &WriteControlConfig{Request: req, Path: path, WriteLJH22: l22, WriteLJH3: l3, WriteOFF: of}
	err, ret := k.do(fmt.Sprintf("WriteControl(%q,ljh22=%v,ljh3=%v,off=%v)%s", req, l22, l3, of, fault), w, func() error { return k.sc.WriteControl(cfg, &okay) })
	k.mon.plantIn.Store("")
	if ret && strings.HasPrefix(up, "START") && want == "any" && err != nil {
		k.stateFull = false // the failed START left nothing behind
	}
	if ret && strings.HasPrefix(up, "STOP") && k.stateFull {
		// whatever the reply, writing is off afterwards
		k.wActive, k.wPaused, k.stateFull = false, false, false
		k.comment = ""
		return
	}
	if !ret || (w != "ok" && w != "any") || err != nil {
		if ret && err != nil && strings.Contains(err.Error(), "map file invalidated") {
			k.mapLoaded = false
		}
		return
	}
	switch {
	case strings.HasPrefix(up, "PAUSE"):
		k.wPaused = true
	case strings.HasPrefix(up, "UNPAUSE"):
		k.wPaused = false
		if len(req) > 8 && w == "ok" {
			k.stLabels = append(k.stLabels, req[8:])
		} else if len(req) > 8 {
			k.stKnown = false
		}
	case strings.HasPrefix(up, "STOP"):
		if k.wActive && k.stKnown && w == "ok" {
			k.checkStateFile()
		}
		k.wActive, k.wPaused = false, false
		k.comment = ""
	case strings.HasPrefix(up, "START"):
		k.stLabels, k.stKnown = []string{"START"}, w == "ok" && fault == ""
		k.wActive, k.wPaused = true, false
		k.wOff = of
		defer func() {
			// straight away, in a third of the runs: a request that would change only the pre-trigger length of the records (the
			// files' headers state it) must be refused while the run is being written, paused or not
			if !k.dead && k.wActive && k.gate() == "" && !k.lenUnknown && vChance(r, 0.35) {
				var okay bool
				if vChance(r, 0.5) {
					k.do("WriteControl(\"PAUSE\")", k.queuedWant("ok"), func() error { return k.sc.WriteControl(&WriteControlConfig{Request: "PAUSE"}, &okay) })
					k.wPaused = true
				}
				np := k.npre + 1
				if np >= k.ns {
					np = k.npre - 1
				}
				if np >= 3 && !k.dead {
					k.c.Cov("pretrigger_only_changes_requested_while_writing", 1)
					k.do(fmt.Sprintf("ConfigurePulseLengths(nsamp=%d,npre=%d) [only the pre-trigger length, while writing]", k.ns, np), "err", func() error {
						return k.sc.ConfigurePulseLengths(SizeObject{Nsamp: k.ns, Npre: np}, &okay)
					})
				}
			} else if !k.dead && k.wActive && k.stKnown && !k.stateFull && k.gate() == "" && vChance(r, 0.3) {
				// or: a short run with a labelled resume, ended at once, whose experiment-state file is then read
				var okay bool
				k.do("WriteControl(\"PAUSE\")", "ok", func() error { return k.sc.WriteControl(&WriteControlConfig{Request: "PAUSE"}, &okay) })
				if e, ret := k.do("WriteControl(\"UNPAUSE mark\")", "ok", func() error { return k.sc.WriteControl(&WriteControlConfig{Request: "UNPAUSE mark"}, &okay) }); ret && e == nil {
					k.stLabels = append(k.stLabels, "mark")
				} else {
					k.stKnown = false
				}
				if e, ret := k.do("WriteControl(\"STOP\")", "ok", func() error { return k.sc.WriteControl(&WriteControlConfig{Request: "STOP"}, &okay) }); ret && e == nil && !k.dead {
					if k.stKnown {
						k.checkStateFile()
					}
					k.wActive, k.wPaused = false, false
					k.comment = ""
					k.c.Cov("short_runs_with_a_labelled_resume", 1)
				}
			}
		}()
		ws := k.sc.ActiveSource.ComputeWritingState()
		k.wDir = filepath.Dir(ws.FilenamePattern)
		k.comment = ""
		k.commentBad = false
		k.c.Cov("writing_sessions", 1)
	}
}

// checkStateFile: after an accepted STOP the experiment-state file of the run holds START, one line per accepted label request
// (label requests and 'UNPAUSE label'), and STOP, in that order.
func (k *vCtl) checkStateFile() {
	files, _ := filepath.Glob(filepath.Join(k.wDir, "*_experiment_state.txt"))
	if len(files) != 1 {
		return
	}
	b, err := os.ReadFile(files[0])
	if err != nil {
		return
	}
	lines := strings.Split(strings.TrimRight(string(b), "\n"), "\n")
	var got []string
	for _, l := range lines {
		if strings.HasPrefix(l, "#") {
			continue
		}
		if i := strings.Index(l, ", "); i >= 0 {
			got = append(got, l[i+2:])
		}
	}
	want := append(append([]string(nil), k.stLabels...), "STOP")
	short := func(x []string) []string {
		out := make([]string, len(x))
		for i, v := range x {
			out[i] = vTrim(v, 20)
		}
		return out
	}
	if fmt.Sprint(got) != fmt.Sprint(want) {
		k.c.Violate("c20:state-file-labels", "the experiment-state file of the run holds the lines %v; the accepted requests of the run were %v\nhistory: %v", short(got), short(want), k.hist)
		k.dead = true
		return
	}
	k.c.Cov("state_files_checked", 1)
}

func (k *vCtl) reqStateLabel() {
	r := k.c.R
	label := vPick(r, "A", "", "calibration", strings.Repeat("x", 5000), "with spaces", "B")
	want := "ok"
	switch {
	case label == "":
		want = "err"
	case k.gate() != "":
		want = k.gate()
	case !k.wActive:
		want = "err"
	case k.stateFull:
		want = "err" // the write fails: the caller must be told
	}
	var okay bool
	err, ret := k.do(fmt.Sprintf("SetExperimentStateLabel(len=%d,wait)", len(label)), want, func() error {
		return k.sc.SetExperimentStateLabel(&StateLabelConfig{Label: label, WaitForError: true}, &okay)
	})
	switch {
	case ret && err == nil && want == "ok":
		k.stLabels = append(k.stLabels, label)
	case ret && err == nil:
		k.stKnown = false
	}
}

func (k *vCtl) reqComment() {
	r := k.c.R
	text := vPick(r, "hello", "", "two\nlines\n", strings.Repeat("c", 20000), "x")
	want := "ok"
	fault := ""
	if k.wActive && text != "" && !k.commentBad && vChance(r, 0.5) {
		// single I/O fault: comment.txt cannot be created (a directory is in its place)
		p := filepath.Join(k.wDir, "comment.txt")
		os.Remove(p)
		if os.Mkdir(p, 0o755) == nil {
			k.commentBad = true
			k.c.Cov("io_fault_comment", 1)
		}
	}
	switch {
	case text == "":
		want = "err"
	case k.gate() != "":
		want = k.gate()
	case k.wActive && k.commentBad:
		want = "err"
		fault = " [comment.txt uncreatable]"
	}
	var okay bool
	err, ret := k.do(fmt.Sprintf("WriteComment(len=%d)%s", len(text), fault), want, func() error { return k.sc.WriteComment(&text, &okay) })
	if ret && err == nil && want == "ok" && k.wActive {
		k.comment = text
		if !strings.HasSuffix(text, "\n") {
			k.comment += "\n"
		}
	}
}

func (k *vCtl) reqReadComment() {
	zero := vPick(k.c.R, 0, 0, 0, 7)
	want := "ok"
	switch {
	case k.gate() != "":
		want = "any" // the RPC layer may or may not have noticed yet; reading is not queued
	case zero != 0 || !k.wActive || k.comment == "" || k.commentBad:
		want = "err"
	}
	var s string
	err, ret := k.do(fmt.Sprintf("ReadComment(%d)", zero), want, func() error { return k.sc.ReadComment(&zero, &s) })
	if ret && err == nil && want == "ok" && s != k.comment {
		k.c.Violate("c11:read-comment", "ReadComment returned %q, the last accepted comment was %q\nhistory: %v", vTrim(s, 80), vTrim(k.comment, 80), k.hist)
		k.dead = true
	}
}

func (k *vCtl) reqCoupling() {
	r := k.c.R
	on := vChance(r, 0.6)
	errToFB := vChance(r, 0.5)
	k.coupling(errToFB, on)
	if k.kind == "lancero" && on && !k.dead && k.gate() == "" && vChance(r, 0.5) {
		// the same coupling asked for again after one of its pairs was edited by hand: the request means "connect every pair of
		// this direction, disconnect every pair of the other", whatever was asked for before
		pair := 2 * r.Intn(k.nchan/2)
		src, rcv := pair, pair+1
		if !errToFB {
			src, rcv = pair+1, pair
		}
		gts := GroupTriggerState{Connections: map[int][]int{src: {rcv}}}
		var okay bool
		if vChance(r, 0.7) {
			k.do(fmt.Sprintf("DeleteGroupTriggerCoupling(%v)", gts.Connections), k.queuedWant("ok"), func() error { return k.sc.DeleteGroupTriggerCoupling(&gts, &okay) })
		} else {
			gts = GroupTriggerState{Connections: map[int][]int{rcv: {src}}} // a pair of the other direction, added by hand
			k.do(fmt.Sprintf("AddGroupTriggerCoupling(%v)", gts.Connections), k.queuedWant("ok"), func() error { return k.sc.AddGroupTriggerCoupling(gts, &okay) })
		}
		k.c.Cov("couplings_repeated_after_a_manual_edit", 1)
		k.coupling(errToFB, true)
	}
}

// coupling issues one err->FB / FB->err coupling request and compares the connection set in use afterwards (read from inside the
// core loop) with the set-theoretic result of the request on the set in use before it.
func (k *vCtl) coupling(errToFB, on bool) {
	want := "ok"
	if on && k.kind != "lancero" {
		want = "err"
	}
	before, haveBefore := k.groupState()
	var okay bool
	var err error
	var ret bool
	if errToFB {
		err, ret = k.do(fmt.Sprintf("CoupleErrToFB(%v)", on), k.queuedWant(want), func() error { return k.sc.CoupleErrToFB(&on, &okay) })
	} else {
		err, ret = k.do(fmt.Sprintf("CoupleFBToErr(%v)", on), k.queuedWant(want), func() error { return k.sc.CoupleFBToErr(&on, &okay) })
	}
	if !haveBefore || !ret || err != nil || k.dead || k.kind != "lancero" || k.gate() != "" {
		return
	}
	after, ok := k.groupState()
	if !ok {
		return
	}
	exp := map[[2]int]bool{}
	for src, rcvs := range before.Connections {
		for _, rcv := range rcvs {
			exp[[2]int{src, rcv}] = true
		}
	}
	for i := 0; i+1 < k.nchan; i += 2 {
		if on && errToFB {
			exp[[2]int{i, i + 1}] = true
		} else {
			delete(exp, [2]int{i, i + 1})
		}
		if on && !errToFB {
			exp[[2]int{i + 1, i}] = true
		} else {
			delete(exp, [2]int{i + 1, i})
		}
	}
	want2 := &GroupTriggerState{Connections: map[int][]int{}}
	for p := range exp {
		want2.Connections[p[0]] = append(want2.Connections[p[0]], p[1])
	}
	k.c.Cov("coupling_set_checks", 1)
	if vGroupKey(want2) != vGroupKey(after) {
		k.c.Violate("c09:coupling-set", "the connection set in use was %s; after the coupling request (err->FB %v, on %v) it is %s, the set-theoretic result is %s\nhistory: %v",
			vGroupKey(before), errToFB, on, vGroupKey(after), vGroupKey(want2), k.hist)
		k.dead = true
	}
}

// groupState reads the connection set in use from inside the core loop (as a queued request), so it is ordered with the requests.
func (k *vCtl) groupState() (*GroupTriggerState, bool) {
	if k.dead || !k.active || k.selfEnded || k.sc.ActiveSource == nil {
		return nil, false
	}
	var st *GroupTriggerState
	var err error
	ok := vWatched(k.c, "request (harness) group state", 15*time.Second, func() {
		err = k.sc.runLaterIfActive(func() {
			g := k.sc.ActiveSource.ComputeGroupTriggerState()
			st = &g
			k.sc.queuedResults <- nil
		})
	})
	if !ok {
		k.dead = true
		return nil, false
	}
	return st, err == nil && st != nil
}

// vGroupKey is a canonical text of a connection set (empty receiver lists dropped, receivers sorted).
func vGroupKey(g *GroupTriggerState) string {
	if g == nil {
		return "<nil>"
	}
	var keys []int
	for s, rx := range g.Connections {
		if len(rx) > 0 {
			keys = append(keys, s)
		}
	}
	sort.Ints(keys)
	var b strings.Builder
	for _, s := range keys {
		rx := append([]int(nil), g.Connections[s]...)
		sort.Ints(rx)
		fmt.Fprintf(&b, "%d:%v ", s, rx)
	}
	return "{" + strings.TrimSpace(b.String()) + "}"
}

func (k *vCtl) reqGroupTrigger() {
	r := k.c.R
	conn := map[int][]int{}
	want := "ok"
	switch r.Intn(7) {
	case 0:
		conn[-1] = []int{0}
		want = "err"
	case 1:
		conn[0] = []int{k.nchan}
		want = "err"
	case 2:
		conn[k.nchan+5] = []int{0, 1}
		want = "err"
	case 3:
		conn[0] = []int{-3}
		want = "err"
	case 4:
		// partly valid: the valid pairs of a request that is answered with an error may or may not take effect,
		// but clients must be told whatever the set in use is afterwards
		if k.nchan >= 2 {
			conn[0] = []int{1, k.nchan + 3}
		} else {
			conn[0] = []int{k.nchan + 3}
		}
		if vChance(r, 0.5) {
			conn[k.nchan+2] = []int{0}
		}
		want = "err"
	default:
		for i := 0; i < 1+r.Intn(3); i++ {
			conn[r.Intn(k.nchan)] = append(conn[r.Intn(k.nchan)], r.Intn(k.nchan))
		}
	}
	gts := GroupTriggerState{Connections: conn}
	var okay bool
	before, haveBefore := k.groupState()
	vClientReset(true)
	defer func() {
		if !haveBefore || k.dead {
			vClientReset(false)
			return
		}
		after, ok := k.groupState()
		if !ok {
			vClientReset(false)
			return
		}
		// the last GROUPTRIGGER update since the request was issued (the drainer may lag behind the core loop by a moment)
		findGT := func() *GroupTriggerState {
			var last *GroupTriggerState
			for _, m := range vClientSnapshot() {
				if m.tag == "GROUPTRIGGER" {
					if st, ok := m.state.(*GroupTriggerState); ok {
						last = st
					} else if st, ok := m.state.(GroupTriggerState); ok {
						st := st
						last = &st
					}
				}
			}
			return last
		}
		last := findGT()
		for i := 0; i < 3000 && last == nil && vGroupKey(before) != vGroupKey(after); i++ {
			time.Sleep(time.Millisecond)
			last = findGT()
		}
		vClientReset(false)
		k.c.Cov("grouptrigger_report_checks", 1)
		switch {
		case last != nil && vGroupKey(last) != vGroupKey(after):
			k.c.Violate("c09:reported-state", "after a group-trigger request (%v) clients were sent GROUPTRIGGER %s, the set in use is %s\nhistory: %v", conn, vGroupKey(last), vGroupKey(after), k.hist)
			k.dead = true
		case last == nil && vGroupKey(before) != vGroupKey(after):
			k.c.Violate("c09:reported-state", "a group-trigger request (%v) changed the set in use from %s to %s, but no GROUPTRIGGER update was sent to clients\nhistory: %v", conn, vGroupKey(before), vGroupKey(after), k.hist)
			k.dead = true
		case vGroupKey(before) != vGroupKey(after):
			k.c.Cov("grouptrigger_changes_reported", 1)
		}
	}()
	switch r.Intn(5) {
	case 0, 1, 2:
		k.do(fmt.Sprintf("AddGroupTriggerCoupling(%v)", conn), k.queuedWant(want), func() error { return k.sc.AddGroupTriggerCoupling(gts, &okay) })
	case 3:
		if want == "err" {
			// deleting a connection that cannot exist: the statement lists out-of-range indices as invalid
			// arguments, but "safe to delete whether they exist or not" is documented; accept either.
			want = "any"
		}
		w := k.queuedWant(want)
		k.do(fmt.Sprintf("DeleteGroupTriggerCoupling(%v)", conn), w, func() error { return k.sc.DeleteGroupTriggerCoupling(&gts, &okay) })
	case 4:
		dummy := false
		k.do("StopTriggerCoupling()", k.queuedWant("ok"), func() error { return k.sc.StopTriggerCoupling(&dummy, &okay) })
	}
}

func (k *vCtl) reqMix() {
	r := k.c.R
	var chs []int
	var fr []float64
	want := "ok"
	switch r.Intn(8) {
	case 0:
		chs, fr, want = []int{2}, []float64{0.5}, "err" // even = error channel
	case 1:
		chs, fr, want = []int{-1}, []float64{0.5}, "err"
	case 2:
		chs, fr, want = []int{k.nchan + 1}, []float64{0.5}, "err"
	case 3:
		chs, fr, want = []int{1, 3}, []float64{0.5}, "err" // mismatched list lengths
	case 4:
		chs, fr, want = []int{1}, []float64{}, "err"
	default:
		chs, fr = []int{1, 3}, []float64{r.Float64(), -r.Float64()}
	}
	if k.kind != "lancero" {
		want = "err"
	}
	if g := k.gate(); g != "" {
		want = g
	}
	var okay bool
	k.do(fmt.Sprintf("ConfigureMixFraction(%v,%v)", chs, fr), want, func() error {
		return k.sc.ConfigureMixFraction(&MixFractionObject{ChannelIndices: chs, MixFractions: fr}, &okay)
	})
}

func (k *vCtl) reqRawBlock() {
	r := k.c.R
	n := vPick(r, 1, 50, 400, 0, -3, 1<<50, 1<<61, 1<<62, math.MaxInt64, math.MaxInt64-12345)
	want := "any"
	if g := k.gate(); g != "" {
		want = g
	} else if n >= 1 && n <= 400 && !k.archiving {
		want = "ok"
	}
	var s string
	err, ret := k.do(fmt.Sprintf("StoreRawDataBlock(%d)", n), want, func() error { return k.sc.StoreRawDataBlock(n, &s) })
	if ret && err == nil {
		k.archiving = true
		// the block is complete once enough data have gone by; wait for the file of small requests
		if n >= 1 && n <= 400 {
			for i := 0; i < 3000; i++ {
				if _, e := os.Stat(s); e == nil {
					k.archiving = false
					k.c.Cov("raw_blocks_completed", 1)
					break
				}
				time.Sleep(time.Millisecond)
			}
		}
	}
	if s != "" {
		os.Remove(s)
		os.Remove(strings.Replace(s, ".npz", "_inprogress.npz", 1))
	}
}

func (k *vCtl) reqMap() {
	r := k.c.R
	var okay bool
	ms := k.sc.mapServer
	if k.mapLoaded && vChance(r, 0.5) {
		zero := 0
		k.do("MapServer.Unload()", "ok", func() error { return ms.Unload(&zero, &okay) })
		k.mapLoaded = false
		return
	}
	npix := vPick(r, 2, k.nchan, k.nchan+3, 40)
	fn := filepath.Join(k.dir, fmt.Sprintf("map%d.txt", npix))
	var sb strings.Builder
	sb.WriteString("spacing: 100\n")
	for i := 1; i <= npix; i++ {
		fmt.Fprintf(&sb, "%d %d %d pix%d\n", i, 10*i, 20*i, i)
	}
	os.WriteFile(fn, []byte(sb.String()), 0o644)
	err, ret := k.do(fmt.Sprintf("MapServer.Load(%d pixels)", npix), "ok", func() error { return ms.Load(&fn, &okay) })
	if ret && err == nil {
		k.mapLoaded, k.mapPixels = true, npix
		k.c.Cov("maps_loaded", 1)
	}
}

func (k *vCtl) reqStop() {
	want := "ok"
	if !k.active {
		want = "err"
	}
	if k.selfEnded {
		want = "any" // Stop on a source that ended itself may say "not active" or succeed
	}
	var s string
	var okay bool
	_, ret := k.do("Stop()", want, func() error { return k.sc.Stop(&s, &okay) })
	if ret {
		k.active, k.wActive, k.wPaused, k.selfEnded, k.settled = false, false, false, false, false
		k.archiving = false
	}
}

// heldRequest: make the next ProcessSegments wait inside its span, issue a queued request while it
// is held, then release. The effect must not begin before the block is done (span monitor).
func (k *vCtl) heldRequest() {
	if k.dead || !k.active || k.selfEnded {
		return
	}
	m := k.mon
	for len(m.held) > 0 {
		<-m.held
	}
	atomic.StoreInt32(&m.holdWanted, 1)
	select {
	case <-m.held:
	case <-time.After(2 * time.Second):
		atomic.StoreInt32(&m.holdWanted, 0)
		return
	}
	before := atomic.LoadInt64(&m.queuedBefore)
	go func() {
		// release once the request has reached the queue (or after a bounded wait)
		for i := 0; i < 200 && atomic.LoadInt64(&m.queuedBefore) == before; i++ {
			time.Sleep(500 * time.Microsecond)
		}
		time.Sleep(time.Millisecond)
		select {
		case m.release <- struct{}{}:
		default:
		}
	}()
	k.c.Cov("requests_while_block_in_process", 1)
	switch k.c.R.Intn(4) {
	case 0:
		k.reqTriggers()
	case 1:
		k.reqWriteControl()
	case 2:
		k.reqGroupTrigger()
	case 3:
		k.reqProjectors()
	}
}

// anySource gives the AnySource part of the running source (the harness is in the package).
func (k *vCtl) anySource() *AnySource {
	switch k.kind {
	case "triangle":
		return &k.sc.triangle.AnySource
	case "lancero":
		return &k.sc.lancero.AnySource
	case "selfend":
		return &k.self.AnySource
	}
	return nil
}

// twoClients: two connections at once (the server runs every connection in a goroutine of its own). While a block is in process,
// client A asks for START with OFF files; as soon as that request waits at the queue, client B asks for a model with another number
// of components on a channel that has a model. Both take effect at the coming block boundary, one after the other, in the order
// the core loop takes them. Whatever that order: both callers get one reply, processing goes on, and afterwards the model the
// channel projects with is the one its open OFF file states in its header (every OFF record must have that many coefficients).
func (k *vCtl) twoClients() {
	ds := k.anySource()
	if k.dead || !k.active || k.selfEnded || k.wActive || k.lenUnknown || k.emtOn || k.mapLoaded || k.stateFull || ds == nil {
		return
	}
	r := k.c.R
	ch := r.Intn(k.nchan)
	mk := func(rw, cl int) string {
		d := make([]float64, rw*cl)
		for i := range d {
			d[i] = r.NormFloat64()
		}
		return vMatB64(mat.NewDense(rw, cl, d))
	}
	var okay bool
	nb := 1 + r.Intn(2)
	err, ret := k.do(fmt.Sprintf("ConfigureProjectorsBasis(ch=%d, %d components)", ch, nb), "ok", func() error {
		return k.sc.ConfigureProjectorsBasis(&ProjectorsBasisObject{ChannelIndex: ch, ProjectorsBase64: mk(nb, k.ns), BasisBase64: mk(k.ns, nb), ModelDescription: "first"}, &okay)
	})
	if !ret || err != nil || k.dead {
		return
	}
	k.hasProj[ch], k.sureProj[ch] = true, true
	m := k.mon
	for len(m.held) > 0 {
		<-m.held
	}
	atomic.StoreInt32(&m.holdWanted, 1)
	select {
	case <-m.held:
	case <-time.After(2 * time.Second):
		atomic.StoreInt32(&m.holdWanted, 0)
		return
	}
	before := atomic.LoadInt64(&m.queuedBefore)
	waitQueued := func(n int64) {
		for i := 0; i < 200 && atomic.LoadInt64(&m.queuedBefore) < before+n; i++ {
			time.Sleep(500 * time.Microsecond)
		}
		time.Sleep(time.Millisecond)
	}
	var errB error
	doneB := make(chan bool, 1)
	go func() {
		waitQueued(1) // client A's request is waiting at the queue
		nb2 := nb + 1
		pbo := &ProjectorsBasisObject{ChannelIndex: ch, ProjectorsBase64: mk(nb2, k.ns), BasisBase64: mk(k.ns, nb2), ModelDescription: "second"}
		var okayB bool
		go func() {
			waitQueued(2) // both wait: the block may end now
			select {
			case m.release <- struct{}{}:
			default:
			}
		}()
		doneB <- vWatched(k.c, "request ConfigureProjectorsBasis (second client)", 15*time.Second, func() { errB = k.sc.ConfigureProjectorsBasis(pbo, &okayB) })
	}()
	errA, retA := k.do("WriteControl(START,off=true) [while a second client sends a model for channel "+fmt.Sprint(ch)+"]", "ok", func() error {
		return k.sc.WriteControl(&WriteControlConfig{Request: "START", Path: k.dir, WriteOFF: true}, &okay)
	})
	if !<-doneB {
		k.dead = true
		return
	}
	if !retA || errA != nil || k.dead {
		return
	}
	k.wActive, k.wPaused, k.wOff = true, false, true
	k.stLabels, k.stKnown = []string{"START"}, true
	ws := k.sc.ActiveSource.ComputeWritingState()
	k.wDir = filepath.Dir(ws.FilenamePattern)
	k.comment, k.commentBad = "", false
	k.c.Cov("writing_sessions", 1)
	k.c.Cov("two_clients_start_against_model", 1)
	k.note("(second client: ConfigureProjectorsBasis(ch=%d, %d components) answered %v)", ch, nb+1, errB)
	// read from inside the core loop (a queued request of the harness)
	headerBases, modelRows, hasOff := -1, -1, false
	ok := vWatched(k.c, "request (harness) model state", 15*time.Second, func() {
		k.sc.runLaterIfActive(func() {
			dsp := ds.processors[ch]
			if dsp.DataPublisher.HasOFF() {
				hasOff = true
				headerBases = dsp.DataPublisher.OFF.NumberOfBases
			}
			if dsp.projectors != nil {
				modelRows, _ = dsp.projectors.Dims()
			}
			k.sc.queuedResults <- nil
		})
	})
	if !ok {
		k.dead = true
		return
	}
	if hasOff && headerBases != modelRows {
		k.c.Violate("c11:model-changed-under-open-off-file", "channel %d writes an OFF file whose header states %d components, but after a START and a ConfigureProjectorsBasis from two clients (replies: %v and %v) it projects on %d: the next record cannot be written\nhistory: %v", ch, headerBases, errA, errB, modelRows, k.hist)
		k.dead = true
		return
	}
	if !hasOff {
		k.c.Violate("c11:reply-class:WriteControl:want-ok", "START with OFF files was answered with success, but channel %d, which has a model, has no OFF file\nhistory: %v", ch, k.hist)
		k.dead = true
		return
	}
	if errB == nil {
		k.c.Cov("two_clients_model_first", 1)
	} else {
		k.c.Cov("two_clients_start_first", 1)
	}
	k.progress("two clients")
}

// restartSelfEnded: the source ended by itself while a raw-data request was being collected. Once it has settled the same object
// is started again (with the same or another number of channels): blocks must be processed, and a new raw-data request must be
// accepted and completed (what the ended run left behind must not be carried into the new one).
func (k *vCtl) restartSelfEnded() {
	self := k.self
	for j := 0; j < 2000 && self.GetState() != Inactive; j++ {
		time.Sleep(time.Millisecond)
	}
	if self.GetState() != Inactive {
		return
	}
	k.settled = true
	k.reqStop()
	if k.dead {
		return
	}
	r := k.c.R
	self.endNow = make(chan struct{})
	atomic.StoreInt32(&self.ended, 0)
	if vChance(r, 0.5) {
		self.nchan = vPick(r, 2, 4, 5)
	}
	sc := k.sc
	sc.ActiveSource = self
	sc.status.Running = true
	err, ret := k.do(fmt.Sprintf("Start(the self-ended object again, %d channels)", self.nchan), "ok", func() error { return Start(self, sc.queuedRequests, k.npre, k.ns) })
	if !ret || err != nil {
		return
	}
	sc.isSourceActive = true
	sc.status.Nchannels = self.nchan
	k.nchan = self.nchan
	k.active, k.selfEnded, k.settled, k.archiving = true, false, false, false
	k.wActive, k.wPaused, k.emtOn, k.lenUnknown = false, false, false, false
	k.hasProj, k.sureProj = map[int]bool{}, map[int]bool{}
	k.progress("the restart of the self-ended object")
	if k.dead {
		return
	}
	var s string
	if err, ret := k.do("StoreRawDataBlock(50) [after the restart]", "ok", func() error { return k.sc.StoreRawDataBlock(50, &s) }); ret && err == nil {
		for i := 0; i < 3000; i++ {
			if _, e := os.Stat(s); e == nil {
				k.c.Cov("raw_blocks_completed", 1)
				break
			}
			time.Sleep(time.Millisecond)
		}
		os.Remove(s)
		os.Remove(strings.Replace(s, ".npz", "_inprogress.npz", 1))
		k.c.Cov("restarts_of_a_self_ended_object_with_raw_request_pending", 1)
	}
}

func vRunControl(c *vCase) {
	viper.Reset()
	kind := []string{"triangle", "triangle", "lancero", "selfend", "selfend", "erroring"}[c.Idx%6]
	mon := &vCtlMon{held: make(chan struct{}, 1), release: make(chan struct{}), startHeld: make(chan struct{}, 1), startRelease: make(chan struct{})}
	mon.overlap.Store("")
	mon.plantIn.Store("")
	verifInstall(mon.handlers())
	defer verifInstall(nil)
	sc, stopHB := vNewInPackageControl()
	defer close(stopHB)
	k := &vCtl{c: c, sc: sc, mon: mon, kind: kind, dir: filepath.Join(c.Dir, "out")}
	k.forceExtTrig = kind == "lancero" && c.Idx%12 == 2
	os.MkdirAll(k.dir, 0o755)
	c.Describe("source=%s seed=%d idx=%d", kind, c.Seed, c.Idx)
	r := c.R
	// a few requests before any source runs
	var pre sync.Once
	pre.Do(func() {
		k.nchan = 4
		k.ns, k.npre = 32, 8
		k.hasProj = map[int]bool{}
		k.sureProj = map[int]bool{}
		for i := 0; i < 1+r.Intn(3) && !k.dead; i++ {
			switch r.Intn(6) {
			case 0:
				k.reqTriggers()
			case 1:
				k.reqWriteControl()
			case 2:
				k.reqStateLabel()
			case 3:
				k.reqComment()
			case 4:
				k.reqRawBlock()
			case 5:
				k.reqStop()
			}
		}
	})
	if k.dead || !k.startSource() {
		return
	}
	c.Cov("source_"+kind, 1)
	nreq := vRange(r, 12, 30)
	endAt := -1
	if kind == "selfend" {
		endAt = vRange(r, 2, nreq-2)
	}
	stopThenStart := false
	pendingAtEnd := false        // a raw-data request was being collected when the source ended itself
	stopFirst := vChance(r, 0.3) // after the source has ended by itself the very next request is Stop, then a new Start
	for i := 0; i < nreq && !k.dead; i++ {
		if stopFirst && k.selfEnded && (k.settled || kind == "erroring") {
			c.Cov("stop_is_first_request_after_self_termination", 1)
			k.reqStop()
			stopThenStart = true // and the very next one is the Start of a new source (nothing in between that would let the server notice by other means)
			break
		}
		if i == endAt && vChance(r, 0.4) {
			// a request waits through a long block; while it waits the source ends itself, so that the core
			// loop finds the request and the end of the source ready at the same time
			m := k.mon
			for len(m.held) > 0 {
				<-m.held
			}
			atomic.StoreInt32(&m.holdWanted, 1)
			select {
			case <-m.held:
				k.selfEnded = true
				k.note("block held; a request is issued, 60 ms later the source ends itself (mode %d) and the block is released", k.self.mode)
				go func() {
					time.Sleep(60 * time.Millisecond)
					close(k.self.endNow)
					time.Sleep(2 * time.Millisecond)
					select {
					case m.release <- struct{}{}:
					default:
					}
				}()
				c.Cov("requests_pending_when_source_ends", 1)
				switch r.Intn(3) {
				case 0:
					k.reqTriggers()
				case 1:
					k.reqGroupTrigger()
				case 2:
					k.reqWriteControl()
				}
				continue
			case <-time.After(2 * time.Second):
				atomic.StoreInt32(&m.holdWanted, 0)
			}
		}
		if i == endAt && !k.selfEnded {
			if !k.flood && !k.archiving && vChance(r, 0.5) {
				// a raw-data request that is still collecting when the source ends (2^22 samples per channel, 40 s of data, are never reached; the request costs 25 MB)
				var s string
				if err, ret := k.do("StoreRawDataBlock(2^22) [still collecting when the source ends]", "any", func() error { return k.sc.StoreRawDataBlock(1<<22, &s) }); ret && err == nil {
					k.archiving, pendingAtEnd = true, true
					defer os.Remove(strings.Replace(s, ".npz", "_inprogress.npz", 1))
				}
			}
			// the source ends itself now; requests keep arriving: immediately (racing) or a little later
			close(k.self.endNow)
			k.selfEnded = true
			k.note("source ends itself (mode %d)", k.self.mode)
			if vChance(r, 0.5) {
				for j := 0; j < 2000 && k.self.GetState() != Inactive; j++ {
					time.Sleep(time.Millisecond)
				}
				k.settled = k.self.GetState() == Inactive
				c.Cov("requests_after_self_termination_settled", 1)
			} else {
				c.Cov("requests_racing_self_termination", 1)
			}
		}
		if kind != "erroring" && !k.selfEnded && vChance(r, 0.15) {
			k.heldRequest()
			continue
		}
		if c.Idx%5 == 3 && i == nreq/2 {
			k.twoClients()
			continue
		}
		if k.selfEnded {
			c.Cov("requests_after_self_termination", 1)
		}
		sel := r.Intn(16)
		if vCtlFocus == "group" { // C09's server-level sessions: mostly connection edits
			sel = vPick(r, 12, 12, 12, 12, 11, 0, 15)
		}
		switch sel {
		case 0, 1:
			k.reqTriggers()
		case 2:
			k.reqPulseLengths()
		case 3, 4:
			k.reqProjectors()
		case 5, 6, 7:
			k.reqWriteControl()
		case 8:
			k.reqStateLabel()
		case 9:
			k.reqComment()
		case 10:
			k.reqReadComment()
		case 11:
			k.reqCoupling()
		case 12:
			k.reqGroupTrigger()
		case 13:
			k.reqMix()
		case 14:
			k.reqRawBlock()
		case 15:
			if vChance(r, 0.5) {
				k.reqMap()
			} else {
				var s string
				var okay bool
				k.do("SendAllStatus()", "ok", func() error { return k.sc.SendAllStatus(&s, &okay) })
			}
		}
	}
	if pendingAtEnd && !k.dead && k.selfEnded && !stopThenStart {
		k.restartSelfEnded()
	}
	// what clients have last been told about the connections of the run that ends here (the set in use; the report monitor
	// has compared the two after every request)
	var tableBefore *GroupTriggerState
	if !k.dead && k.active && !k.selfEnded {
		tableBefore, _ = k.groupState()
	}
	if !k.dead {
		if k.active {
			k.reqStop()
		}
		// after a stop every queued request must be refused, not hang
		if !k.dead && !stopThenStart {
			k.reqTriggers()
		}
	}
	if !k.dead {
		// whatever happened before (also a source that ended by itself): the server accepts a new source
		var okay bool
		var str string
		if err := k.sc.ConfigureTriangleSource(&TriangleSourceConfig{Nchan: 2, SampleRate: 200000, Min: 100, Max: 300}, &okay); err == nil {
			name := "TRIANGLESOURCE"
			k.kind = "triangle"
			k.nchan = 2
			vClientReset(true)
			if e, ret := k.do("Start(triangle) after the session", "ok", func() error { return k.sc.Start(&name, &okay) }); ret && e == nil {
				k.active, k.selfEnded, k.settled = true, false, false
				k.progress("Start(triangle) after the session")
				if tableBefore != nil && vGroupKey(tableBefore) != "{}" {
					// the new run starts without connections; clients that still hold the previous run's table must be told
					now, ok := k.groupState()
					var last *GroupTriggerState
					for i := 0; i < 2000 && last == nil && ok; i++ {
						for _, m := range vClientSnapshot() {
							if m.tag == "GROUPTRIGGER" {
								if st, isp := m.state.(*GroupTriggerState); isp {
									last = st
								} else if st, isv := m.state.(GroupTriggerState); isv {
									st := st
									last = &st
								}
							}
						}
						if last == nil {
							time.Sleep(time.Millisecond)
						}
					}
					if ok && (last == nil || vGroupKey(last) != vGroupKey(now)) {
						c.Violate("c09:reported-state", "the previous run ended with the connections %s reported to clients; the new run uses %s, but after its Start clients were told %s\nhistory: %v",
							vGroupKey(tableBefore), vGroupKey(now), vGroupKey(last), k.hist)
						k.dead = true
					} else if ok {
						c.Cov("grouptrigger_reports_checked_after_a_restart", 1)
					}
				}
				vClientReset(false)
				k.do("Stop()", "ok", func() error { return k.sc.Stop(&str, &okay) })
				k.active = false
				c.Cov("restarts_through_the_server", 1)
			}
		}
	}
	if !k.dead {
		c.Nontrivial()
	} else if k.self != nil {
		// do not leave the producer running (its blocks would be counted by the next case's monitor): wait for it, bounded
		stopped := make(chan struct{})
		go func() { k.self.Stop(); close(stopped) }()
		select {
		case <-stopped:
		case <-time.After(5 * time.Second):
		}
	}
	if c.Idx < 8 {
		c.Describe("requests and expected reply classes: %v", k.hist) // shows up as a sample in the evidence file
	}
	c.Cov("effects_run", int(atomic.LoadInt64(&mon.effects)))
	c.Cov("blocks_processed", int(atomic.LoadInt64(&mon.processEnds)))
	c.Cov("blocks_held_for_a_request", int(atomic.LoadInt64(&mon.heldCount)))
}

// vCtlFocus narrows the request mix of a session ("" = all request types).
var vCtlFocus string

// vRunControlGroupFocus runs one server-level session made mostly of connection edits, for C09's "reported to clients" clause.
func vRunControlGroupFocus(c *vCase) {
	stop := make(chan struct{})
	done := make(chan struct{})
	go func() { // nobody consumes the published records in such a session
		defer close(done)
		for {
			select {
			case <-vRecTap:
			case <-vSumTap:
			case <-stop:
				return
			}
		}
	}()
	vCtlFocus = "group"
	vRunControl(c)
	vCtlFocus = ""
	close(stop)
	<-done
	c.Cov("server_level_sessions", 1)
}

func vCtlSetup(tier string) {
	go func() { // nobody consumes the published records in this harness
		for {
			select {
			case <-vRecTap:
			case <-vSumTap:
			}
		}
	}()
}

func init() {
	vRegister("C11", &vProp{
		Setup: vCtlSetup,
		Cases: func(tier string) int {
			if tier == "thorough" {
				return 2400
			}
			return 192
		},
		Run: vRunControl,
		Meta: vMeta{Level: "exploration",
			Rule: "case = one client session against an in-package SourceControl: 1-3 requests with no source, Start of Triangle / scripted Lancero card / ErroringSource / a self-ending source (error block or closed channel at a scripted request index, requests continuing at once or after it settled), then 12-30 requests drawn from every queued request type with valid and invalid arguments (negative, too large, empty, nil and 2^40 channel indices, invalid pulse lengths, malformed/truncated/empty/wrong-shape matrices, every write-control string with all file-type subsets, empty/huge labels and comments, coupling on sources without it, mix lists of unequal length, raw-block sizes 0/negative/2^50, pixel maps that do not cover the channel numbers) and single I/O faults (output base path is a file, comment.txt uncreatable, experiment-state file uncreatable or on a full disk, external-trigger file uncreatable); 15 % of the requests are issued while the hook holds a block inside ProcessSegments. Monitors: reply class vs. model, effect/ProcessSegments span overlap, >=2 further blocks processed after each reply, every call returns (wait-state analysis), process crash = violation of the journaled case; non-trivial = session completed; additions: partly valid group-trigger requests with a monitor of the GROUPTRIGGER update sent to clients, raw-block sizes up to MaxInt64, Stop-then-Start straight after a self-termination, and backlog sessions (a block on offer at every block boundary, enforced at the core.idle hook) with a starvation monitor counting blocks processed while a request waits; two directed scenarios with a second client (a second goroutine, as a second connection is served): SendAllStatus while a Start is held right after the source was sampled (1 session in 4 of Triangle/Lancero), and START with OFF files against ConfigureProjectorsBasis with another number of components, both waiting at the queue while a block is held (1 session in 5), after which the open OFF file's header and the model in use are read from inside the core loop and must agree; refused pulse-length requests are repeated at once (must be refused again); half of the self-ending sessions have a raw-data request still collecting when the source ends, after which the same object is started again (same or other channel count), must process blocks and must accept and complete a new raw-data request",
			Assumptions: []string{"one client issues the session's requests (one goroutine); a second client appears only in the two directed scenarios, where what it does is decided (no second stream of arbitrary requests)", "the fire-and-forget mode of SetExperimentStateLabel is excluded as the property says", "where the statement does not fix the reply (raw-block size 0, deleting a connection that cannot exist, reading a comment after self-termination) either reply is accepted",
				"hangs are decided by wait-state analysis of two goroutine dumps 2 s apart after a 15 s watchdog, never by the clock alone"},
			Guards: map[string]map[string]int{
				"quick":    {"requests": 2500, "progress_checks": 1000, "requests_while_block_in_process": 100, "requests_after_self_termination": 150, "requests_pending_when_source_ends": 8, "io_fault_comment": 5, "io_fault_state_file": 8, "effects_run": 800, "source_triangle": 40, "source_lancero": 20, "source_selfend": 40, "source_erroring": 20, "writing_sessions": 30, "restarts_through_the_server": 120, "stop_is_first_request_after_self_termination": 8, "starts_polled_by_a_second_client": 8, "two_clients_start_against_model": 4},
				"thorough": {"requests": 30000, "requests_after_self_termination": 2000},
			}},
	})
}
