package PKGNAME

// C05 (output files well-formed and hold exactly the records), C06 (reported writing
// state matches behaviour) and C20 (run-log side files). One engine drives an AnySource
// through histories of WriteControl requests interleaved with blocks; C05 biases the
// generator towards geometry/parameter/record variety and adds the writers' public API
// with extreme values, C06 towards illegal/redundant request orders, C20 towards
// external-trigger lists, drop counts and state labels.

import (
	"bufio"
	"encoding/binary"
	"fmt"
	"math"
	"os"
	"path/filepath"
	"regexp"
	"sort"
	"strconv"
	"strings"
	"time"

	"github.com/usnistgov/dastard/ljh"
	"github.com/usnistgov/dastard/off"
	"gonum.org/v1/gonum/mat"
)

type vWModel struct {
	active, paused  bool
	ljh22, ljh3, of bool
	dir             string // session directory while active
}

type vExpRec struct {
	rec *DataRecord
}

type vSession struct {
	dir        string
	pattern    string
	types      [3]bool                  // ljh22, ljh3, off
	expected   map[string][]*DataRecord // "<ch>/<type>" -> records accepted while active and unpaused
	extTrig    []int64
	drops      [][2]int
	labels     []string // state-file labels in order, including START and STOP
	stateFault bool     // the STOP label could not be written (injected fault)
	stopped    bool
}

type vWriteRun struct {
	c                 *vCase
	f                 *vFeed
	nchan             int
	npre              int
	nsamp             int
	hasProj           []bool
	projP             []*mat.Dense
	projB             []*mat.Dense
	model             vWModel
	base              string
	cur               *vSession
	done              []*vSession
	lastDir           string
	extTick, dropTick chan time.Time // hand-fired periodic ticks
	stopFaultArmed    bool           // break the experiment-state file just before the next STOP of an active session
	startFaultArmed   bool           // the next START that would succeed finds its experiment-state file uncreatable
	startFaultPlanted bool
	startFaults       int             // how many START faults this history may still inject
	badPathNext       bool            // the next START that would succeed names an unusable output path
	emtCh             int             // >= 0: this channel uses the edge-multi trigger with variable-length records
	gapMode           bool            // base path pre-populated with run directories (with holes) of today
	preDirs           map[string]bool // directories that existed before the request being applied
	hist              []string
	blockNo           int
	multi             bool // several records per channel and block
}

// prepare sets up identity/geometry, triggers and projectors.
func vNewWriteRun(c *vCase, variety bool) *vWriteRun {
	r := c.R
	w := &vWriteRun{c: c, multi: variety, stopFaultArmed: c.Idx%5 == 3}
	if c.Idx%3 == 1 {
		w.startFaults = 2
	}
	w.nchan = 2 + r.Intn(4)
	w.npre = 4 + r.Intn(12)
	w.nsamp = w.npre + 4 + r.Intn(24)
	period := vPick(r, 10*time.Microsecond, 6400*time.Nanosecond, 1280*time.Nanosecond)
	viperResetForFeed()
	ds := vNewAnySource(w.nchan, period)
	if vChance(r, 0.5) {
		// a sample rate whose period is not a whole number of ns (as real cards have): the sources keep the
		// exact rate and a ns-rounded period side by side; headers must state the true one
		ds.sampleRate = vPick(r, 245000.0, 125e6/1024, 99999.7, 781250.0/3)
		ds.samplePeriod = time.Duration(roundint(1e9 / ds.sampleRate))
		period = ds.samplePeriod
		c.Cov("fractional_ns_sample_period", 1)
	}
	if err := ds.PrepareChannels(); err != nil {
		c.Inconclusive("setup", "%v", err)
		return nil
	}
	if variety {
		rows := 1 + r.Intn(40)
		cols := 1 + r.Intn(8)
		ds.subframeDivisions = vPick(r, 0, 1, rows, 64)
		ds.name = vPick(r, "VerifSource", "Lancero", "Abaco")
		first := vPick(r, 0, 1, 100, 4000)
		for i := 0; i < w.nchan; i++ {
			row, col := r.Intn(rows), r.Intn(cols)
			ds.rowColCodes[i] = rcCode(row, col, rows, cols)
			ds.chanNumbers[i] = first + i*vPick(r, 1, 1, 3)
			ds.chanNames[i] = fmt.Sprintf("%s%d", vPick(r, "chan", "err"), ds.chanNumbers[i])
			ds.subframeOffsets[i] = r.Intn(64)
		}
		// names must stay distinct for distinct files
		seen := map[string]bool{}
		for i := 0; i < w.nchan; i++ {
			for seen[ds.chanNames[i]] {
				ds.chanNames[i] += "x"
			}
			seen[ds.chanNames[i]] = true
		}
	}
	if err := ds.PrepareRun(w.npre, w.nsamp); err != nil {
		c.Inconclusive("setup", "%v", err)
		return nil
	}
	w.f = &vFeed{ds: ds, nchan: w.nchan, period: period, signed: make([]bool, w.nchan), t0: time.Unix(vT0Unix, 0)}
	// The periodic (1 s / 10 s) flush-and-report of the external-trigger and data-drop files never fires in
	// histories that take milliseconds: replace the tickers by hand-fired ones, so that a tick can be pending
	// when any block is handled.
	if ds.writingState.externalTriggerTicker != nil {
		ds.writingState.externalTriggerTicker.Stop()
	}
	if ds.writingState.dataDropTicker != nil {
		ds.writingState.dataDropTicker.Stop()
	}
	w.extTick, w.dropTick = make(chan time.Time, 1), make(chan time.Time, 1)
	ds.writingState.externalTriggerTicker = &time.Ticker{C: w.extTick}
	ds.writingState.dataDropTicker = &time.Ticker{C: w.dropTick}
	w.f.firstFrame = FrameIndex(vPick(r, 0, 12345, 1<<36))
	for i := range w.f.signed {
		w.f.signed[i] = variety && vChance(r, 0.3)
	}
	var ts TriggerState
	ts.EdgeTrigger, ts.EdgeRising, ts.EdgeLevel = true, true, 500
	all := make([]int, w.nchan)
	for i := range all {
		all[i] = i
	}
	if err := ds.ChangeTriggerState(&FullTriggerState{ChannelIndices: all, TriggerState: ts}); err != nil {
		c.Inconclusive("setup", "%v", err)
		return nil
	}
	w.hasProj = make([]bool, w.nchan)
	w.projP = make([]*mat.Dense, w.nchan)
	w.projB = make([]*mat.Dense, w.nchan)
	nproj := r.Intn(w.nchan + 1)
	for k := 0; k < nproj; k++ {
		ch := r.Intn(w.nchan)
		nb := 1 + r.Intn(5)
		pd := make([]float64, nb*w.nsamp)
		bd := make([]float64, w.nsamp*nb)
		for i := range pd {
			pd[i] = r.NormFloat64() / float64(w.nsamp)
		}
		for i := range bd {
			bd[i] = r.NormFloat64()
		}
		P, B := mat.NewDense(nb, w.nsamp, pd), mat.NewDense(w.nsamp, nb, bd)
		if err := ds.ConfigureProjectorsBases(ch, P, B, fmt.Sprintf("model-%d", ch)); err != nil {
			c.Inconclusive("setup", "projectors rejected: %v", err)
			return nil
		}
		w.hasProj[ch], w.projP[ch], w.projB[ch] = true, P, B
	}
	// one channel without a model may make variable-length records (edge-multi): LJH3 takes records of any length,
	// an LJH2.2 file only those of its fixed length; a record the writer refuses must not disturb anything else
	w.emtCh = -1
	if variety && c.Idx%3 == 1 && w.nsamp-w.npre >= 8 && w.npre >= 4 {
		for ch := w.nchan - 1; ch >= 0; ch-- {
			if !w.hasProj[ch] && !w.f.signed[ch] {
				var es TriggerState
				es.EdgeMulti = true
				es.EMTState.mode = EMTRecordsVariableLength
				es.EMTState.threshold = 300
				es.EMTState.nmonotone = 1
				if err := ds.ChangeTriggerState(&FullTriggerState{ChannelIndices: []int{ch}, TriggerState: es}); err == nil {
					w.emtCh = ch
					c.Cov("histories_with_variable_length_channel", 1)
				}
				break
			}
		}
	}
	w.base = filepath.Join(c.Dir, "out")
	os.MkdirAll(w.base, 0o755)
	if vChance(r, 0.3) {
		// earlier runs of today already exist, not necessarily consecutively numbered (a user may have
		// removed some): START must still write into a directory that did not exist before.
		w.gapMode = true
		today := time.Now().Format("20060102")
		layout := vPick(r, []int{1}, []int{3}, []int{1, 3}, []int{0, 2}, []int{0, 1, 4}, []int{2, 3, 4, 5}, []int{0, 1, 2})
		for _, n := range layout {
			d := filepath.Join(w.base, today, fmt.Sprintf("%04d", n))
			os.MkdirAll(d, 0o755)
			os.WriteFile(filepath.Join(d, "earlier_run.txt"), []byte("data of an earlier run\n"), 0o644)
		}
		c.Cov("histories_with_preexisting_directories", 1)
	}
	// all truth is generated lazily block by block
	w.f.truth = make([][]RawType, w.nchan)
	return w
}

// pushBlock appends one block in which every channel has exactly one pulse, runs it
// through ProcessSegments and books the records according to the model state.
func (w *vWriteRun) pushBlock(ext []int64, dropped int) bool {
	c, f := w.c, w.f
	if vChance(c.R, 0.3) { // a periodic tick is pending when this block is handled
		select {
		case w.extTick <- time.Now():
			c.Cov("periodic_ticks_fired", 1)
		default:
		}
		select {
		case w.dropTick <- time.Now():
		default:
		}
	}
	np := 1
	if w.multi {
		np = 1 + (w.blockNo*7+3)%3 // 1..3 records per channel in one block (one PublishData batch)
	}
	blen := (1 + 2*np) * w.nsamp
	for ch := 0; ch < w.nchan; ch++ {
		seg := make([]RawType, blen)
		base := 3000 + 50*ch
		if f.signed[ch] {
			base = -200 + 10*ch
		}
		for i := range seg {
			seg[i] = RawType(uint16(int16(base)))
		}
		for q := 0; q < np; q++ {
			at := w.nsamp + ch + 2*q*w.nsamp
			amp := 1000 + (w.blockNo*37+ch*11+q*101)%3000
			for j := 0; j < w.nsamp && at+j < blen; j++ {
				v := amp - j*(amp/w.nsamp+1)
				if v < 0 {
					v = 0
				}
				seg[at+j] = RawType(uint16(int16(base + v)))
			}
			if ch == w.emtCh && (w.blockNo+q)%2 == 0 {
				// a second pulse on the tail of the first, closer than one record: the first record comes out short
				at2 := at + (w.nsamp-w.npre)/2 + 2
				for j := 0; at2+j < blen && j < w.nsamp; j++ {
					seg[at2+j] += RawType(3000 - j*(3000/w.nsamp+1))
				}
			}
		}
		f.truth[ch] = append(f.truth[ch], seg...)
	}
	w.blockNo++
	sent := append([]int64(nil), ext...) // the block gets its own copy: the expectation must not follow what the code does to the list
	var stopAsk chan struct{}
	if (dropped > 0 || len(ext) > 0) && w.blockNo%2 == 0 {
		// another thread of the server asks for the writing state all the while (a client reading the comment, a status request):
		// that takes the writing-state lock again and again, and must not cost the block its lines in the side files
		stopAsk = make(chan struct{})
		asked := make(chan struct{})
		go func() {
			defer close(asked)
			for {
				select {
				case <-stopAsk:
					return
				default:
					f.ds.ComputeWritingState()
				}
			}
		}()
		defer func() { <-asked }()
		c.Cov("blocks_processed_while_the_state_is_being_read", 1)
	}
	recs, err := f.push(blen, sent, dropped)
	if stopAsk != nil {
		close(stopAsk)
	}

	if err != nil {
		c.Violate("c06:process-error", "ProcessSegments error: %v (history %v)", err, w.hist)
		return false
	}
	perch := make([]int, w.nchan)
	for _, rec := range recs {
		perch[rec.channelIndex]++
	}
	for ch, n := range perch {
		if ch == w.emtCh {
			if n < np {
				c.Inconclusive("harness", "block %d: the edge-multi channel %d produced %d records from at least %d pulses", w.blockNo, ch, n, np)
				return false
			}
			continue
		}
		if n != np {
			c.Inconclusive("harness", "block %d: channel %d produced %d records, the harness planted %d pulses", w.blockNo, ch, n, np)
			return false
		}
	}
	if w.cur != nil {
		w.cur.extTrig = append(w.cur.extTrig, ext...)
		if dropped > 0 {
			w.cur.drops = append(w.cur.drops, [2]int{int(f.lastBlockFirstFrame), dropped})
		}
	}
	if np > 1 {
		c.Cov("multi_record_batches", w.nchan)
	}
	if w.model.active && !w.model.paused {
		for _, rec := range recs {
			ch := rec.channelIndex
			if len(rec.data) != w.nsamp {
				c.Cov("variable_length_records_while_writing", 1)
			}
			if w.cur.types[0] && len(rec.data) == w.nsamp { // an LJH2.2 file holds records of its one length only
				k := fmt.Sprintf("%d/ljh", ch)
				w.cur.expected[k] = append(w.cur.expected[k], rec)
			}
			if w.cur.types[1] {
				k := fmt.Sprintf("%d/ljh3", ch)
				w.cur.expected[k] = append(w.cur.expected[k], rec)
			}
			if w.cur.types[2] && w.hasProj[ch] {
				k := fmt.Sprintf("%d/off", ch)
				w.cur.expected[k] = append(w.cur.expected[k], rec)
			}
		}
		c.Cov("blocks_while_writing", 1)
	} else if w.model.active {
		c.Cov("blocks_while_paused", 1)
	} else {
		c.Cov("blocks_while_inactive", 1)
	}
	return true
}

var vPatternRE = regexp.MustCompile(`/(\d{8})/(\d{4})/\d{8}_run(\d{4})_%s\.%s$`)

// request issues one WriteControl request and compares outcome and reported state with the model.
func (w *vWriteRun) request(req string, l22, l3, of bool) bool {
	c, ds := w.c, w.f.ds
	cfg := &WriteControlConfig{Request: req, Path: w.base, WriteLJH22: l22, WriteLJH3: l3, WriteOFF: of}
	up := strings.ToUpper(req)
	m := w.model
	before := ds.ComputeWritingState()
	w.preDirs = map[string]bool{}
	if days, err := os.ReadDir(w.base); err == nil {
		for _, d := range days {
			runs, _ := os.ReadDir(filepath.Join(w.base, d.Name()))
			for _, rd := range runs {
				w.preDirs[filepath.Join(w.base, d.Name(), rd.Name())] = true
			}
		}
	}
	wantErr := false
	desc2 := ""
	startFault := false
	kind := "garbage"
	label := ""
	switch {
	case strings.HasPrefix(up, "PAUSE"):
		kind = "PAUSE"
		m.paused = true
	case strings.HasPrefix(up, "UNPAUSE"):
		kind = "UNPAUSE"
		if len(req) > 7 {
			if req[7] != ' ' || len(req) == 8 || !m.active {
				wantErr = true
			} else {
				label = req[8:]
			}
		}
		if !wantErr {
			m.paused = false
		}
	case strings.HasPrefix(up, "STOP"):
		kind = "STOP"
		m.active, m.paused = false, false
	case strings.HasPrefix(up, "START"):
		kind = "START"
		anyProj := false
		for _, p := range w.hasProj {
			anyProj = anyProj || p
		}
		if m.active || !(l22 || l3 || of) || (of && !anyProj) {
			wantErr = true
		} else if w.badPathNext {
			// an output path below a regular file: the run directory cannot be made; the request is refused and nothing
			// that clients are told (base path included) may change
			w.badPathNext = false
			notdir := w.base + "_not_a_directory"
			os.WriteFile(notdir, []byte("x"), 0o644)
			cfg.Path = filepath.Join(notdir, "sub")
			wantErr = true
			desc2 = "[path below a regular file]"
			c.Cov("starts_with_unusable_path", 1)
		} else if w.startFaults > 0 && vChance(c.R, 0.15) {
			// single I/O failure inside START: the request must be answered with an error and change nothing
			w.startFaults--
			w.startFaultArmed, w.startFaultPlanted = true, false
			wantErr = true
			startFault = true
		} else if ds.channelsPerPixel > 0 && vChance(c.R, 0.15) {
			// the request carries a pixel map (as the RPC layer attaches the loaded one) of the right length; pixels are looked
			// up by channel number, so the request is valid only if every number in use is within 1..pixels, otherwise it is
			// refused (and a refused request changes nothing)
			npix := w.nchan / ds.channelsPerPixel
			mp := &Map{Spacing: 1, Pixels: make([]Pixel, npix), Filename: "verif.map"}
			for i := range mp.Pixels {
				mp.Pixels[i] = Pixel{X: i, Y: 2 * i, Name: fmt.Sprintf("px%d", i)}
			}
			cfg.MapInternalOnly = mp
			covered := true
			for _, n := range ds.chanNumbers {
				covered = covered && n >= 1 && n <= npix
			}
			if covered {
				m.active, m.paused = true, false
				m.ljh22, m.ljh3, m.of = l22, l3, of
				desc2 = "[with a pixel map]"
				c.Cov("starts_with_a_pixel_map", 1)
			} else {
				wantErr = true
				desc2 = "[with a pixel map that does not cover the channel numbers]"
				c.Cov("starts_with_a_map_not_covering_the_numbers", 1)
			}
		} else {
			m.active, m.paused = true, false
			m.ljh22, m.ljh3, m.of = l22, l3, of
		}
	default:
		wantErr = true
	}
	desc := req
	if kind == "START" {
		desc = fmt.Sprintf("%s(ljh22=%v,ljh3=%v,off=%v)", req, l22, l3, of)
	}
	faulted := false
	if kind == "STOP" && w.model.active && w.stopFaultArmed && ds.writingState.experimentStateFile != nil {
		// I/O fault at STOP: the experiment-state file has gone bad under the server, so the STOP label cannot be
		// written. Whatever STOP replies, afterwards nothing may be active or open, and a new START must work.
		ds.writingState.experimentStateFile.Close()
		w.stopFaultArmed = false
		faulted = true
		desc += "[state file broken]"
		c.Cov("stops_with_io_fault", 1)
	}
	if startFault {
		desc += "[state file uncreatable]"
	}
	desc += desc2
	w.hist = append(w.hist, desc)
	err := ds.WriteControl(cfg)
	if startFault {
		w.startFaultArmed = false
		if !w.startFaultPlanted {
			c.Inconclusive("harness", "the START fault could not be planted (hook point write.start.dirmade not reached)")
			return false
		}
		w.gapMode = true // the failed START has used up a directory number
		c.Cov("starts_with_io_fault", 1)
	}
	if faulted {
		if err != nil {
			c.Cov("stops_with_io_fault_reported", 1)
		}
		err = nil
	}
	if (err != nil) != wantErr {
		c.Violate("c06:reply-class", "request %q: got error %v, the state machine says error=%v (history %v)", desc, err, wantErr, w.hist)
		return false
	}
	after := ds.ComputeWritingState()
	if wantErr {
		c.Cov("rejected_"+kind, 1)
		if before.BasePath != after.BasePath {
			c.Violate("c06:rejected-changed-state", "rejected request %q changed the reported output base path from %q to %q (history %v)", desc, before.BasePath, after.BasePath, w.hist)
			return false
		}
		if before.Active != after.Active || before.Paused != after.Paused || before.FilenamePattern != after.FilenamePattern ||
			before.WriteLJH22 != after.WriteLJH22 || before.WriteLJH3 != after.WriteLJH3 || before.WriteOFF != after.WriteOFF {
			c.Violate("c06:rejected-changed-state", "rejected request %q changed the reported state from {active %v paused %v %q} to {active %v paused %v %q}", desc,
				before.Active, before.Paused, before.FilenamePattern, after.Active, after.Paused, after.FilenamePattern)
			return false
		}
		return true
	}
	c.Cov("accepted_"+kind, 1)
	// session bookkeeping
	switch kind {
	case "START":
		w.cur = &vSession{types: [3]bool{l22, l3, of}, expected: map[string][]*DataRecord{}, labels: []string{"START"}}
		w.cur.pattern = after.FilenamePattern
		mm := vPatternRE.FindStringSubmatch(after.FilenamePattern)
		if mm == nil || !strings.HasPrefix(after.FilenamePattern, w.base) {
			c.Violate("c06:pattern", "after START the reported file pattern is %q (base %q)", after.FilenamePattern, w.base)
			return false
		}
		w.cur.dir = filepath.Dir(after.FilenamePattern)
		if mm[2] != mm[3] {
			c.Violate("c06:pattern", "directory number %s and run number %s differ in %q", mm[2], mm[3], after.FilenamePattern)
			return false
		}
		if st, err := os.Stat(w.cur.dir); err != nil || !st.IsDir() {
			c.Violate("c06:directory", "START did not create the directory %q", w.cur.dir)
			return false
		}
		n, _ := strconv.Atoi(mm[2])
		if w.preDirs[w.cur.dir] {
			c.Violate("c06:directory-not-new", "START wrote into directory %q, which existed before the request (history %v)", w.cur.dir, w.hist)
			return false
		}
		if w.gapMode {
			c.Cov("starts_with_preexisting_directories", 1)
		} else if w.lastDir != "" {
			pn, _ := strconv.Atoi(filepath.Base(w.lastDir))
			if filepath.Dir(w.lastDir) == filepath.Dir(w.cur.dir) && n != pn+1 {
				c.Violate("c06:directory-number", "START wrote into directory %04d after %04d: not a newly created next directory", n, pn)
				return false
			}
		} else if n != 0 {
			c.Violate("c06:directory-number", "first START used directory %04d of an empty base path", n)
			return false
		}
		w.lastDir = w.cur.dir
		if of && vChance(w.c.R, 0.3) {
			// before the first record of the run: a model of the same size for a channel whose OFF file has been set up. The
			// request is refused or it takes effect; if it takes effect, it is the model the file has to state in its header
			for ch := 0; ch < w.nchan; ch++ {
				if !w.hasProj[ch] {
					continue
				}
				nb, _ := w.projP[ch].Dims()
				pd := make([]float64, nb*w.nsamp)
				bd := make([]float64, w.nsamp*nb)
				for i := range pd {
					pd[i] = w.c.R.NormFloat64() / float64(w.nsamp)
				}
				for i := range bd {
					bd[i] = w.c.R.NormFloat64()
				}
				P, B := mat.NewDense(nb, w.nsamp, pd), mat.NewDense(w.nsamp, nb, bd)
				if err := w.f.ds.ConfigureProjectorsBases(ch, P, B, "replacement"); err == nil {
					w.projP[ch], w.projB[ch] = P, B
					c.Cov("models_replaced_right_after_start", 1)
				} else {
					c.Cov("model_requests_refused_right_after_start", 1)
				}
				break
			}
		}
		if ents, _ := os.ReadDir(w.cur.dir); len(ents) > 1 { // only the experiment-state file may exist yet
			c.Violate("c06:directory-not-new", "directory %q already had %d entries right after START", w.cur.dir, len(ents))
			return false
		}
	case "PAUSE":
		// PAUSE flushes every file of every channel before it returns: what was accepted so far is on disk now
		if w.cur != nil && !w.checkFlushed(w.cur) {
			return false
		}
	case "UNPAUSE":
		if label != "" && w.cur != nil {
			w.cur.labels = append(w.cur.labels, label)
		}
	case "STOP":
		if w.cur != nil {
			w.cur.labels = append(w.cur.labels, "STOP")
			w.cur.stopped = true
			w.cur.stateFault = faulted
			w.done = append(w.done, w.cur)
			s := w.cur
			w.cur = nil
			w.model = m
			if !w.checkSession(s) {
				return false
			}
		}
	}
	w.model = m
	// reported state == model
	if after.Active != m.active || after.Paused != m.paused {
		c.Violate("c06:reported-state", "after %q reported {active %v, paused %v}, model {active %v, paused %v} (history %v)", desc, after.Active, after.Paused, m.active, m.paused, w.hist)
		return false
	}
	if m.active {
		if after.WriteLJH22 != m.ljh22 || after.WriteLJH3 != m.ljh3 || after.WriteOFF != m.of {
			c.Violate("c06:reported-types", "after %q reported types ljh22=%v ljh3=%v off=%v, model %v %v %v", desc, after.WriteLJH22, after.WriteLJH3, after.WriteOFF, m.ljh22, m.ljh3, m.of)
			return false
		}
		if after.FilenamePattern == "" {
			c.Violate("c06:reported-pattern", "active but the reported file pattern is empty")
			return false
		}
	} else if after.FilenamePattern != "" {
		c.Violate("c06:reported-pattern", "not active but the reported file pattern is %q", after.FilenamePattern)
		return false
	}
	c.Cov("state_checks", 1)
	return true
}

// label issues a state-label request as the RPC layer would (SetExperimentStateLabel).
func (w *vWriteRun) label(lbl string) bool {
	err := w.f.ds.SetExperimentStateLabel(time.Now(), lbl)
	w.hist = append(w.hist, "label:"+lbl)
	if (err != nil) != !w.model.active {
		w.c.Violate("c20:label-reply", "state label %q while active=%v returned %v", lbl, w.model.active, err)
		return false
	}
	if err == nil {
		w.cur.labels = append(w.cur.labels, lbl)
		w.c.Cov("labels_accepted", 1)
	} else {
		w.c.Cov("labels_rejected", 1)
	}
	return true
}

func vU16(d []RawType) []uint16 {
	out := make([]uint16, len(d))
	for i, v := range d {
		out[i] = uint16(v)
	}
	return out
}

func vEqU16(a, b []uint16) bool {
	if len(a) != len(b) {
		return false
	}
	for i := range a {
		if a[i] != b[i] {
			return false
		}
	}
	return true
}

// checkSession decodes every file of a stopped session and compares with the expectation.
// checkFlushed: right after a call that flushes (PAUSE), every open file of the session holds all the records accepted for it so
// far, whole (the count is what is compared here; the content is compared after STOP).
func (w *vWriteRun) checkFlushed(s *vSession) bool {
	c, ds := w.c, w.f.ds
	fname := func(name, ext string) string { return fmt.Sprintf(filepath.Base(s.pattern), name, ext) }
	for ch := 0; ch < w.nchan; ch++ {
		for _, ext := range []string{"ljh", "ljh3", "off"} {
			want := s.expected[fmt.Sprintf("%d/%s", ch, ext)]
			if len(want) == 0 {
				continue
			}
			fn := fname(ds.chanNames[ch], ext)
			b, err := os.ReadFile(filepath.Join(s.dir, fn))
			if err != nil {
				c.Violate("c07:flush-incomplete", "PAUSE has returned (it flushes every file), %d records were accepted for %s, but the file does not exist (history %v)", len(want), fn, w.hist)
				return false
			}
			got, trailing := -1, 0
			var perr error
			switch ext {
			case "ljh":
				var f *vLJH22File
				if f, perr = vParseLJH22(b); perr == nil {
					got, trailing = len(f.recs), f.trailing
				}
			case "ljh3":
				var f *vLJH3File
				if f, perr = vParseLJH3(b); perr == nil {
					got, trailing = len(f.recs), f.trailing
				}
			case "off":
				var f *vOFFFile
				if f, perr = vParseOFF(b); perr == nil {
					got, trailing = len(f.recs), f.trailing
				}
			}
			if perr != nil || got != len(want) || trailing != 0 {
				c.Violate("c07:flush-incomplete", "PAUSE has returned (it flushes every file of every channel), %d records were accepted for %s so far, but the file (%d bytes) holds %d whole records and %d further bytes (parse: %v; session types %v; history %v)",
					len(want), fn, len(b), got, trailing, perr, s.types, w.hist)
				return false
			}
			c.Cov("files_checked_right_after_a_flush", 1)
		}
	}
	return true
}

func (w *vWriteRun) checkSession(s *vSession) bool {
	c, ds := w.c, w.f.ds
	if open := vOpenFDsUnder(s.dir); len(open) > 0 {
		c.Violate("c06:files-open-after-stop", "after STOP these files are still open: %v (history %v)", open, w.hist)
		return false
	}
	ents, _ := os.ReadDir(s.dir)
	present := map[string]bool{}
	for _, e := range ents {
		present[e.Name()] = true
	}
	fname := func(name, ext string) string { return fmt.Sprintf(filepath.Base(s.pattern), name, ext) }
	used := map[string]bool{}
	timebase := 1.0 / ds.sampleRate
	for ch := 0; ch < w.nchan; ch++ {
		rc := ds.rowColCodes[ch]
		for ti, ext := range []string{"ljh", "ljh3", "off"} {
			key := fmt.Sprintf("%d/%s", ch, ext)
			want := s.expected[key]
			fn := fname(ds.chanNames[ch], ext)
			used[fn] = true
			if len(want) == 0 {
				if present[fn] && ch == w.emtCh && ext == "ljh" {
					// only records of other lengths were offered to this LJH2.2 file: a header without records is a well-formed file
					b, _ := os.ReadFile(filepath.Join(s.dir, fn))
					if f, err := vParseLJH22(b); err != nil || len(f.recs) != 0 || f.trailing != 0 {
						c.Violate("c05:ljh22-count", "%s: only records of other lengths were offered, yet the file holds %d bytes that are not just a header (%v)", fn, len(b), err)
						return false
					}
					continue
				}
				if present[fn] {
					b, _ := os.ReadFile(filepath.Join(s.dir, fn))
					c.Violate("c06:unexpected-file", "file %s (%d bytes) exists although no record of channel %d was accepted for type %s in this session (types %v, history %v)", fn, len(b), ch, ext, s.types, w.hist)
					return false
				}
				continue
			}
			_ = ti
			b, err := os.ReadFile(filepath.Join(s.dir, fn))
			if err != nil {
				c.Violate("c06:missing-file", "%d records of channel %d were published while the state was active and unpaused with type %s enabled, but %s does not exist (history %v)", len(want), ch, ext, fn, w.hist)
				return false
			}
			switch ext {
			case "ljh":
				f, err := vParseLJH22(b)
				if err != nil {
					c.Violate("c05:ljh22-parse", "%s: %v", fn, err)
					return false
				}
				if f.trailing != 0 {
					c.Violate("c05:partial-record", "%s: %d bytes after the last whole record (file %d bytes, header %d, record %d)", fn, f.trailing, f.size, f.headerLen, 16+2*f.nsamp)
					return false
				}
				chk := func(key string, want int) bool {
					got, ok := f.intKey(key)
					if !ok || got != want {
						c.Violate("c05:ljh22-header-"+strings.ReplaceAll(strings.ToLower(key), " ", "_"), "%s: header %q is %v (present %v), the channel's true value is %d", fn, key, got, ok, want)
						return false
					}
					c.Cov("header_fields_checked", 1)
					return true
				}
				if !(chk("Presamples", w.npre) && chk("Total Samples", w.nsamp) && chk("Channel", ds.chanNumbers[ch]) &&
					chk("ChannelIndex (in dastard)", ch) && chk("Number of rows", rc.rows()) && chk("Number of columns", rc.cols()) &&
					chk("Row number", rc.row()) && chk("Column number", rc.col()) && chk("Number of channels", w.nchan) &&
					chk("Subframe divisions", ds.subframeDivisions) && chk("Subframe offset", ds.subframeOffsets[ch]) &&
					chk("Number of samples per point", 1)) {
					return false
				}
				if f.hdr["Channel name"] != ds.chanNames[ch] {
					c.Violate("c05:ljh22-header-name", "%s: header channel name %q, true %q", fn, f.hdr["Channel name"], ds.chanNames[ch])
					return false
				}
				tb, err := strconv.ParseFloat(f.hdr["Timebase"], 64)
				if err != nil || math.Abs(tb-timebase) > 1e-6*timebase {
					c.Violate("c05:ljh22-header-timebase", "%s: header timebase %q, true %g", fn, f.hdr["Timebase"], timebase)
					return false
				}
				if len(f.recs) != len(want) {
					c.Violate("c05:ljh22-count", "%s holds %d records, %d were accepted for this channel while writing was active and unpaused (history %v)", fn, len(f.recs), len(want), w.hist)
					return false
				}
				for i, rec := range want {
					g := f.recs[i]
					sf := int64(rec.trigFrame)*int64(ds.subframeDivisions) + int64(ds.subframeOffsets[ch])
					if g.subframe != sf || g.timeUS != rec.trigTime.UnixNano()/1000 || !vEqU16(g.data, vU16(rec.data)) {
						c.Violate("c05:ljh22-record", "%s record %d: subframe %d time %d (want %d, %d) or samples differ", fn, i, g.subframe, g.timeUS, sf, rec.trigTime.UnixNano()/1000)
						return false
					}
				}
				c.Cov("ljh22_files", 1)
				c.Cov("file_records", len(want))
			case "ljh3":
				f, err := vParseLJH3(b)
				if err != nil {
					c.Violate("c05:ljh3-parse", "%s: %v", fn, err)
					return false
				}
				if f.trailing != 0 {
					c.Violate("c05:partial-record", "%s: %d bytes after the last whole record", fn, f.trailing)
					return false
				}
				h := f.hdr
				if h.Format != "LJH3" || math.Abs(h.Frameperiod-timebase) > 1e-12*timebase || h.TDM.NumberOfRows != rc.rows() || h.TDM.NumberOfColumns != rc.cols() ||
					h.TDM.SubframeDivisions != ds.subframeDivisions || h.TDM.SubframeOffset != ds.subframeOffsets[ch] {
					c.Violate("c05:ljh3-header", "%s: header %+v, true frame period %g rows/cols %d/%d subframe div/offset %d/%d", fn, h, timebase, rc.rows(), rc.cols(), ds.subframeDivisions, ds.subframeOffsets[ch])
					return false
				}
				if h.TDM.Row != rc.row() || h.TDM.Column != rc.col() {
					c.Violate("c05:ljh3-header-rowcol", "%s: header says row/column %d/%d, the channel is at %d/%d", fn, h.TDM.Row, h.TDM.Column, rc.row(), rc.col())
					return false
				}
				c.Cov("header_fields_checked", 7)
				if len(f.recs) != len(want) {
					c.Violate("c05:ljh3-count", "%s holds %d records, %d were accepted (history %v)", fn, len(f.recs), len(want), w.hist)
					return false
				}
				for i, rec := range want {
					g := f.recs[i]
					if g.frame != int64(rec.trigFrame) || g.timeUS != rec.trigTime.UnixNano()/1000 || !vEqU16(g.data, vU16(rec.data)) ||
						!(int(g.firstRising) == rec.presamples || int(g.firstRising) == rec.presamples+1) {
						c.Violate("c05:ljh3-record", "%s record %d: frame %d time %d first-rising %d (want %d, %d, %d or %d) or samples differ", fn, i, g.frame, g.timeUS, g.firstRising, rec.trigFrame, rec.trigTime.UnixNano()/1000, rec.presamples, rec.presamples+1)
						return false
					}
				}
				c.Cov("ljh3_files", 1)
				c.Cov("file_records", len(want))
			case "off":
				f, err := vParseOFF(b)
				if err != nil {
					c.Violate("c05:off-parse", "%s: %v", fn, err)
					return false
				}
				if f.trailing != 0 {
					c.Violate("c05:partial-record", "%s: %d bytes after the last whole record", fn, f.trailing)
					return false
				}
				h := f.hdr
				nb, _ := w.projP[ch].Dims()
				ri := h.ReadoutInfo
				if h.FileFormat != "OFF" || h.ChannelIndex != ch || h.ChannelName != ds.chanNames[ch] || h.ChannelNumberMatchingName != ds.chanNumbers[ch] ||
					h.MaxPresamples != w.npre || h.MaxSamples != w.nsamp || math.Abs(h.FramePeriodSeconds-timebase) > 1e-12*timebase || h.NumberOfBases != nb ||
					h.ModelInfo.Projectors.Rows != nb || h.ModelInfo.Projectors.Cols != w.nsamp || h.ModelInfo.Basis.Rows != w.nsamp || h.ModelInfo.Basis.Cols != nb ||
					ri.NumberOfRows != rc.rows() || ri.NumberOfColumns != rc.cols() || ri.RowNum != rc.row() || ri.ColumnNum != rc.col() || ri.NumberOfChans != w.nchan ||
					ri.SubframeDivisions != ds.subframeDivisions || ri.SubframeOffset != ds.subframeOffsets[ch] {
					c.Violate("c05:off-header", "%s: header %+v does not state the channel's true parameters (index %d name %s number %d npre/nsamp %d/%d period %g bases %d geometry %d/%d/%d/%d nchan %d subframe %d/%d)",
						fn, h, ch, ds.chanNames[ch], ds.chanNumbers[ch], w.npre, w.nsamp, timebase, nb, rc.rows(), rc.cols(), rc.row(), rc.col(), w.nchan, ds.subframeDivisions, ds.subframeOffsets[ch])
					return false
				}
				c.Cov("header_fields_checked", 19)
				pr := w.projP[ch].RawMatrix().Data
				br := w.projB[ch].RawMatrix().Data
				for i := range pr {
					if math.Float64bits(pr[i]) != math.Float64bits(f.projectors[i]) {
						c.Violate("c05:off-projectors", "%s: projector element %d differs", fn, i)
						return false
					}
				}
				for i := range br {
					if math.Float64bits(br[i]) != math.Float64bits(f.basis[i]) {
						c.Violate("c05:off-basis", "%s: basis element %d differs", fn, i)
						return false
					}
				}
				if len(f.recs) != len(want) {
					c.Violate("c05:off-count", "%s holds %d records, %d were accepted (history %v)", fn, len(f.recs), len(want), w.hist)
					return false
				}
				for i, rec := range want {
					g := f.recs[i]
					ok := int(g.nsamp) == len(rec.data) && int(g.npre) == rec.presamples && g.frame == int64(rec.trigFrame) && g.timeNS == rec.trigTime.UnixNano() &&
						vF32eq(g.ptm, float32(rec.pretrigMean)) && vF32eq(g.ptd, float32(rec.pretrigDelta)) && vF32eq(g.resid, float32(rec.residualStdDev)) && len(g.coefs) == len(rec.modelCoefs)
					if ok {
						for k := range g.coefs {
							ok = ok && vF32eq(g.coefs[k], float32(rec.modelCoefs[k]))
						}
					}
					if !ok {
						c.Violate("c05:off-record", "%s record %d: {n %d pre %d frame %d t %d ptm %v ptd %v resid %v coefs %v} does not match the accepted record {n %d pre %d frame %d t %d ptm %v ptd %v resid %v coefs %v}",
							fn, i, g.nsamp, g.npre, g.frame, g.timeNS, g.ptm, g.ptd, g.resid, g.coefs, len(rec.data), rec.presamples, rec.trigFrame, rec.trigTime.UnixNano(), rec.pretrigMean, rec.pretrigDelta, rec.residualStdDev, rec.modelCoefs)
						return false
					}
				}
				c.Cov("off_files", 1)
				c.Cov("file_records", len(want))
			}
		}
	}
	return w.checkSideFiles(s, fname, present)
}

// checkSideFiles applies the C20 oracle to the three run-log files of a stopped session.
func (w *vWriteRun) checkSideFiles(s *vSession, fname func(string, string) string, present map[string]bool) bool {
	c := w.c
	// experiment state file
	sfn := fname("experiment_state", "txt")
	b, err := os.ReadFile(filepath.Join(s.dir, sfn))
	if err != nil {
		c.Violate("c20:state-file-missing", "no experiment-state file %s after STOP", sfn)
		return false
	}
	lines := strings.Split(strings.TrimRight(string(b), "\n"), "\n")
	if len(lines) < 1 || !strings.HasPrefix(lines[0], "#") {
		c.Violate("c20:state-file-header", "%s does not start with a header line: %q", sfn, lines[0])
		return false
	}
	var got []string
	prevT := int64(0)
	for _, l := range lines[1:] {
		k := strings.Index(l, ", ")
		if k < 0 {
			c.Violate("c20:state-file-line", "%s: malformed line %q", sfn, l)
			return false
		}
		t, err := strconv.ParseInt(l[:k], 10, 64)
		if err != nil || t < prevT {
			c.Violate("c20:state-file-time", "%s: timestamp of line %q is malformed or goes backwards", sfn, l)
			return false
		}
		prevT = t
		got = append(got, l[k+2:])
	}
	if s.stateFault && fmt.Sprint(got) == fmt.Sprint(s.labels[:len(s.labels)-1]) {
		got = append(got, "STOP") // the label that could not be written
	}
	if fmt.Sprint(got) != fmt.Sprint(s.labels) {
		c.Violate("c20:state-file-labels", "%s holds labels %v, the accepted requests of the session were %v (history %v)", sfn, got, s.labels, w.hist)
		return false
	}
	c.Cov("state_files", 1)
	c.Cov("state_lines", len(got))
	// external trigger file
	efn := fname("external_trigger", "bin")
	if len(s.extTrig) == 0 {
		if present[efn] {
			bb, _ := os.ReadFile(filepath.Join(s.dir, efn))
			if k := strings.IndexByte(string(bb), '\n'); k >= 0 && len(bb) > k+1 {
				c.Violate("c20:exttrig-unexpected", "%s has %d bytes of counts although none were delivered while active", efn, len(bb)-k-1)
				return false
			}
		}
	} else {
		bb, err := os.ReadFile(filepath.Join(s.dir, efn))
		if err != nil {
			c.Violate("c20:exttrig-missing", "%d external-trigger counts were delivered while writing was active but %s does not exist (history %v)", len(s.extTrig), efn, w.hist)
			return false
		}
		k := strings.IndexByte(string(bb), '\n')
		if k < 0 || !strings.HasPrefix(string(bb), "#") {
			c.Violate("c20:exttrig-header", "%s has no text header line", efn)
			return false
		}
		body := bb[k+1:]
		if len(body)%8 != 0 {
			c.Violate("c20:exttrig-partial", "%s body is %d bytes, not a whole number of int64 counts", efn, len(body))
			return false
		}
		gotc := make([]int64, len(body)/8)
		for i := range gotc {
			gotc[i] = int64(binary.LittleEndian.Uint64(body[8*i:]))
		}
		if fmt.Sprint(gotc) != fmt.Sprint(s.extTrig) {
			c.Violate("c20:exttrig-content", "%s holds %d counts %v…, delivered while active: %d counts %v… (history %v)", efn, len(gotc), vHead(gotc), len(s.extTrig), vHead(s.extTrig), w.hist)
			return false
		}
		c.Cov("exttrig_files", 1)
		c.Cov("exttrig_counts", len(gotc))
	}
	// data drop file
	dfn := fname("data_drop", "txt")
	if len(s.drops) == 0 {
		if present[dfn] {
			c.Violate("c20:drop-unexpected", "%s exists although no block reported dropped frames while active", dfn)
			return false
		}
	} else {
		fh, err := os.Open(filepath.Join(s.dir, dfn))
		if err != nil {
			c.Violate("c20:drop-missing", "%d blocks reported drops while active but %s does not exist (history %v)", len(s.drops), dfn, w.hist)
			return false
		}
		var gotd [][2]int
		sc := bufio.NewScanner(fh)
		first := true
		for sc.Scan() {
			l := sc.Text()
			if first {
				first = false
				if !strings.HasPrefix(l, "#") {
					c.Violate("c20:drop-header", "%s does not start with a header line", dfn)
					fh.Close()
					return false
				}
				continue
			}
			fs := strings.Fields(l)
			if len(fs) != 2 {
				c.Violate("c20:drop-line", "%s: malformed line %q", dfn, l)
				fh.Close()
				return false
			}
			a, _ := strconv.Atoi(fs[0])
			bq, _ := strconv.Atoi(fs[1])
			gotd = append(gotd, [2]int{a, bq})
		}
		fh.Close()
		if fmt.Sprint(gotd) != fmt.Sprint(s.drops) {
			c.Violate("c20:drop-content", "%s holds %v, blocks with drops while active were %v (history %v)", dfn, gotd, s.drops, w.hist)
			return false
		}
		c.Cov("drop_files", 1)
		c.Cov("drop_lines", len(gotd))
	}
	return true
}

func vHead(x []int64) []int64 {
	if len(x) > 6 {
		return x[:6]
	}
	return x
}

func vRunWriteHistory(c *vCase, prop string) {
	r := c.R
	w := vNewWriteRun(c, prop == "C05" || vChance(r, 0.3))
	if w == nil {
		return
	}
	defer w.f.close()
	// I/O fault at START: when armed, the experiment-state file of the run being started is made uncreatable
	// (a directory is put in its place right after the run directory has been made)
	verifInstall(&verifHandlers{Point: func(name string) {
		if name != "write.start.dirmade" || !w.startFaultArmed {
			return
		}
		w.startFaultArmed = false
		// the run directory START has just made: the one that was not there before the request
		days, _ := os.ReadDir(w.base)
		for _, d := range days {
			runs, _ := os.ReadDir(filepath.Join(w.base, d.Name()))
			for _, rd := range runs {
				dir := filepath.Join(w.base, d.Name(), rd.Name())
				if rd.IsDir() && len(rd.Name()) == 4 && !w.preDirs[dir] {
					if os.MkdirAll(filepath.Join(dir, fmt.Sprintf("%s_run%s_experiment_state.txt", d.Name(), rd.Name())), 0o755) == nil {
						w.startFaultPlanted = true
					}
				}
			}
		}
	}})
	defer verifInstall(nil)
	nsteps := 5 + r.Intn(21)
	if prop == "C20" {
		nsteps = 5 + r.Intn(56)
	}
	anyProj := false
	for _, p := range w.hasProj {
		anyProj = anyProj || p
	}
	startReq := func() bool {
		k := 1 + r.Intn(7)
		if vChance(r, 0.07) {
			k = 0
		}
		if vChance(r, 0.08) {
			w.badPathNext = true
		}
		return w.request(vPick(r, "START", "Start", "start"), k&1 != 0, k&2 != 0, k&4 != 0)
	}
	for step := 0; step < nsteps; step++ {
		ok := true
		var p float64
		switch prop {
		case "C05":
			p = 0.45 // mostly blocks
		case "C06":
			p = 0.75
		case "C20":
			p = 0.5
		}
		if vChance(r, p) {
			switch prop {
			case "C05":
				switch k := r.Intn(10); {
				case k < 4 && !w.model.active:
					ok = startReq()
				case k < 4:
					ok = w.request(vPick(r, "PAUSE", "UNPAUSE"), false, false, false)
				case k < 6:
					ok = w.request("STOP", false, false, false)
				case k < 8:
					ok = w.request(vPick(r, "PAUSE", "Pause"), false, false, false)
				default:
					ok = w.request(vPick(r, "UNPAUSE", "UNPAUSE lbl"), false, false, false)
				}
			case "C06":
				switch k := r.Intn(14); {
				case k < 4:
					ok = startReq()
				case k < 6:
					ok = w.request(vPick(r, "STOP", "stop"), false, false, false)
				case k < 9:
					ok = w.request(vPick(r, "PAUSE", "pause"), false, false, false)
				case k < 11:
					ok = w.request(vPick(r, "UNPAUSE", "unpause"), false, false, false)
				case k < 12:
					ok = w.request(vPick(r, "UNPAUSE lbl", "UNPAUSE a b c"), false, false, false)
				case k < 13:
					ok = w.request(vPick(r, "UNPAUSEx", "UNPAUSE ", "UNPAUSE"), false, false, false)
				default:
					ok = w.request(vPick(r, "garbage", "", "RESUME", "ST", " START"), vChance(r, 0.5), false, false)
				}
			case "C20":
				switch k := r.Intn(12); {
				case k < 3 && !w.model.active:
					ok = startReq()
				case k < 3:
					ok = w.label(vPick(r, "A", "calibration", "state with spaces", "Z9", "shutter 50% open", "100%"))
				case k < 5:
					ok = w.request("STOP", false, false, false)
				case k < 6:
					ok = w.request("PAUSE", false, false, false)
				case k < 8:
					ok = w.request(vPick(r, "UNPAUSE", "UNPAUSE resumed", "UNPAUSE 10% duty"), false, false, false)
				default:
					ok = w.label(vPick(r, "A", "B", "noise", "pulses 2", "%d %s %v", "gain +3%"))
				}
			}
		} else {
			var ext []int64
			dropped := 0
			if prop == "C20" || vChance(r, 0.2) {
				ne := vPick(r, 0, 0, 1, 2, 5, 50)
				if prop == "C20" && vChance(r, 0.12) {
					// a burst larger than any buffered-writer size (8 bytes per count)
					ne = vPick(r, 511, 512, 513, 600, 1500, 4097)
					c.Cov("exttrig_bursts", 1)
				}
				for i := 0; i < ne; i++ {
					ext = append(ext, vPick(r, int64(0), int64(-1), r.Int63(), int64(w.blockNo)*1000+int64(i)))
				}
				if vChance(r, 0.4) {
					dropped = vPick(r, 1, 3, 100000)
				}
			}
			if prop == "C20" && vChance(r, 0.08) {
				// a raw-data block is being collected while the run is written: it takes copies of the blocks and must
				// leave what goes into the run's files alone
				if f, err := os.CreateTemp(c.Dir, "raw_*_inprogress.npz"); err == nil {
					if w.f.ds.ArchiveDataBlock(vPick(r, 1, 3*w.nsamp, 20*w.nsamp), f, f.Name()+".npz") == nil {
						w.f.ds.archiveBlock.earliestTime = time.Time{} // the feed's blocks carry synthetic (2023) time stamps: they all count as "after the request"
						c.Cov("raw_data_requests_during_a_run", 1)
					} else {
						f.Close()
					}
				}
			}
			if prop == "C20" && (len(ext) > 0 || dropped > 0) && vChance(r, 0.1) {
				// a block without samples (a read thrown away for re-alignment, a tick between data packets) still carries
				// its trigger counts and its drop report
				sent := append([]int64(nil), ext...)
				if _, err := w.f.push(0, sent, dropped); err != nil {
					c.Violate("c06:process-error", "ProcessSegments error on a block without samples: %v", err)
					return
				}
				if w.cur != nil {
					w.cur.extTrig = append(w.cur.extTrig, ext...)
					if dropped > 0 {
						w.cur.drops = append(w.cur.drops, [2]int{int(w.f.lastBlockFirstFrame), dropped})
					}
				}
				c.Cov("blocks_without_samples", 1)
				continue
			}
			ok = w.pushBlock(ext, dropped)
		}
		if !ok {
			return
		}
	}
	// finish: STOP closes everything so that the last session can be decoded too
	if w.model.active {
		if !w.request("STOP", false, false, false) {
			return
		}
	}
	// nothing of a finished session may be written after its STOP (files are complete and closed)
	c.Describe("%s nchan=%d npre/nsamp=%d/%d proj=%v hist=%v", prop, w.nchan, w.npre, w.nsamp, w.hasProj, w.hist)
	c.Cov("sessions", len(w.done))
	if len(w.done) > 0 {
		c.Nontrivial()
	}
	_ = sort.Ints
	_ = anyProj
}

// ---------------------------------------------------------------- C05 part (a): the writers' public API with extreme values

func vRunWriterAPI(c *vCase) bool {
	r := c.R
	dir := filepath.Join(c.Dir, "api")
	os.MkdirAll(dir, 0o755)
	n := vPick(r, 1, 2, 17, 100, 1000, 5000)
	nrec := r.Intn(30)
	type rec struct {
		frame, ts int64
		data      []uint16
	}
	i64 := func() int64 {
		return vPick(r, int64(0), int64(-1), int64(math.MaxInt64), int64(math.MinInt64), r.Int63(), -r.Int63(), int64(1700000000000000))
	}
	recs := make([]rec, nrec)
	for i := range recs {
		d := make([]uint16, n)
		for j := range d {
			d[j] = uint16(vPick(r, 0, 65535, 32768, r.Intn(65536)))
		}
		if vChance(r, 0.12) {
			// a record whose length differs from the file's fixed record length (e.g. a variable-length
			// edge-multi record reaching a channel that writes LJH 2.2): whatever the writer answers,
			// the file must still consist of whole records that are exactly the accepted ones
			d = d[:vPick(r, 0, len(d)/2, len(d)-1)]
			if vChance(r, 0.3) {
				d = append(d, make([]uint16, n+1-len(d))...)
			}
			c.Cov("api_wrong_length_records_offered", 1)
		}
		recs[i] = rec{i64(), i64(), d}
	}
	div, offs := vPick(r, 0, 1, 32, 64), r.Intn(64)
	// LJH 2.2
	w22 := ljh.Writer{ChannelIndex: r.Intn(1000), Presamples: r.Intn(n + 1), Samples: n, FramesPerSample: 1, Timebase: 1.28e-6 * float64(1+r.Intn(100)),
		TimestampOffset: time.Unix(vT0Unix, 0), NumberOfRows: 1 + r.Intn(64), NumberOfColumns: 1 + r.Intn(64), NumberOfChans: 1 + r.Intn(4000), SubframeDivisions: div,
		SubframeOffset: offs, FileName: filepath.Join(dir, "a.ljh"), ChanName: "chan7", ChannelNumberMatchingName: 7, SourceName: "Verif"}
	if err := w22.CreateFile(); err != nil {
		c.Inconclusive("setup", "%v", err)
		return false
	}
	w22.WriteHeader(time.Unix(vT0Unix, 0))
	acc := 0
	var acc22 []rec
	for _, x := range recs {
		if err := w22.WriteRecord(x.frame, x.ts, x.data); err == nil {
			acc++
			acc22 = append(acc22, x)
		}
		if vChance(r, 0.2) {
			w22.Flush()
		}
	}
	w22.Close()
	b, _ := os.ReadFile(w22.FileName)
	f, err := vParseLJH22(b)
	if err != nil {
		c.Violate("c05:ljh22-parse", "writer API: %v", err)
		return false
	}
	if f.trailing != 0 || len(f.recs) != acc || f.size != f.headerLen+acc*(16+2*n) {
		c.Violate("c05:ljh22-size", "writer API: %d records accepted, file holds %d whole records + %d bytes; size %d header %d", acc, len(f.recs), f.trailing, f.size, f.headerLen)
		return false
	}
	for i := 0; i < acc; i++ {
		want := acc22[i].frame*int64(div) + int64(offs) // wrapping int64 arithmetic, as the format defines the sub-frame count
		if f.recs[i].subframe != want || f.recs[i].timeUS != acc22[i].ts || !vEqU16(f.recs[i].data, acc22[i].data) {
			c.Violate("c05:ljh22-record", "writer API: record %d = {%d,%d,%d samples}, accepted {%d (frame %d x %d + %d),%d,%d samples}", i, f.recs[i].subframe, f.recs[i].timeUS, len(f.recs[i].data),
				want, acc22[i].frame, div, offs, acc22[i].ts, len(acc22[i].data))
			return false
		}
	}
	if p, _ := f.intKey("Presamples"); p != w22.Presamples {
		c.Violate("c05:ljh22-header-presamples", "writer API: header presamples %d want %d", p, w22.Presamples)
		return false
	}
	c.Cov("api_records", acc)
	// LJH3: variable lengths
	w3 := ljh.Writer3{ChannelIndex: 3, Timebase: 9.6e-6, NumberOfRows: 4, NumberOfColumns: 2, SubframeDivisions: div, SubframeOffset: offs, Row: 2, Column: 1, FileName: filepath.Join(dir, "a.ljh3")}
	if err := w3.CreateFile(); err != nil {
		c.Inconclusive("setup", "%v", err)
		return false
	}
	w3.WriteHeader()
	type rec3 struct {
		fr   int32
		x    rec
		keep bool
	}
	var r3 []rec3
	for _, x := range recs {
		k := r.Intn(len(x.data) + 1)
		y := rec{x.frame, x.ts, x.data[:k]}
		fr := int32(r.Intn(k + 1))
		err := w3.WriteRecord(fr, y.frame, y.ts, y.data)
		r3 = append(r3, rec3{fr, y, err == nil})
		if vChance(r, 0.2) {
			w3.Flush()
		}
	}
	w3.Close()
	b, _ = os.ReadFile(w3.FileName)
	f3, err := vParseLJH3(b)
	if err != nil {
		c.Violate("c05:ljh3-parse", "writer API: %v", err)
		return false
	}
	var keep []rec3
	for _, x := range r3 {
		if x.keep {
			keep = append(keep, x)
		}
	}
	if f3.trailing != 0 || len(f3.recs) != len(keep) {
		c.Violate("c05:ljh3-size", "writer API: %d records accepted, file holds %d whole records + %d bytes", len(keep), len(f3.recs), f3.trailing)
		return false
	}
	if f3.hdr.TDM.Row != 2 || f3.hdr.TDM.Column != 1 || f3.hdr.TDM.NumberOfRows != 4 || f3.hdr.TDM.SubframeOffset != offs {
		c.Violate("c05:ljh3-header", "writer API: header %+v", f3.hdr)
		return false
	}
	for i, x := range keep {
		g := f3.recs[i]
		if g.firstRising != x.fr || g.frame != x.x.frame || g.timeUS != x.x.ts || !vEqU16(g.data, x.x.data) {
			c.Violate("c05:ljh3-record", "writer API: record %d differs", i)
			return false
		}
	}
	c.Cov("api_records", len(keep))
	// OFF
	nb := 1 + r.Intn(8)
	ns := vPick(r, 1, 8, 100)
	pd, bd := make([]float64, nb*ns), make([]float64, ns*nb)
	for i := range pd {
		pd[i] = vPick(r, r.NormFloat64(), 0, math.MaxFloat64, math.SmallestNonzeroFloat64, -1e-300)
	}
	for i := range bd {
		bd[i] = r.NormFloat64()
	}
	wo := off.NewWriter(filepath.Join(dir, "a.off"), 5, "chan9", 9, 3, ns, 6.4e-6, mat.NewDense(nb, ns, pd), mat.NewDense(ns, nb, bd), "desc", "v", "g", "Verif",
		off.TimeDivisionMultiplexingInfo{NumberOfRows: 3, NumberOfColumns: 2, NumberOfChans: 12, SubframeDivisions: div, ColumnNum: 1, RowNum: 2, SubframeOffset: offs}, off.PixelInfo{XPosition: 1, YPosition: -2, Name: "px"})
	if err := wo.CreateFile(); err != nil {
		c.Inconclusive("setup", "%v", err)
		return false
	}
	wo.WriteHeader()
	type reco struct {
		a, bq   int32
		fr, ts  int64
		p, d, s float32
		co      []float32
		ok      bool
	}
	var ro []reco
	f32 := func() float32 {
		return vPick(r, float32(0), float32(math.NaN()), float32(math.Inf(-1)), math.Float32frombits(r.Uint32()), float32(r.NormFloat64()))
	}
	for i := 0; i < nrec; i++ {
		x := reco{int32(r.Uint32()), int32(r.Uint32()), i64(), i64(), f32(), f32(), f32(), nil, false}
		x.co = make([]float32, nb)
		for k := range x.co {
			x.co[k] = f32()
		}
		x.ok = wo.WriteRecord(x.a, x.bq, x.fr, x.ts, x.p, x.d, x.s, x.co) == nil
		ro = append(ro, x)
		if vChance(r, 0.2) {
			wo.Flush()
		}
	}
	wo.Close()
	b, _ = os.ReadFile(filepath.Join(dir, "a.off"))
	fo, err := vParseOFF(b)
	if err != nil {
		c.Violate("c05:off-parse", "writer API: %v", err)
		return false
	}
	var ko []reco
	for _, x := range ro {
		if x.ok {
			ko = append(ko, x)
		}
	}
	if fo.trailing != 0 || len(fo.recs) != len(ko) {
		c.Violate("c05:off-size", "writer API: %d records accepted, file holds %d whole records + %d bytes", len(ko), len(fo.recs), fo.trailing)
		return false
	}
	for i := range pd {
		if math.Float64bits(pd[i]) != math.Float64bits(fo.projectors[i]) {
			c.Violate("c05:off-projectors", "writer API: projector element %d differs", i)
			return false
		}
	}
	for i, x := range ko {
		g := fo.recs[i]
		ok := g.nsamp == x.a && g.npre == x.bq && g.frame == x.fr && g.timeNS == x.ts && vF32eq(g.ptm, x.p) && vF32eq(g.ptd, x.d) && vF32eq(g.resid, x.s)
		for k := range x.co {
			ok = ok && vF32eq(g.coefs[k], x.co[k])
		}
		if !ok {
			c.Violate("c05:off-record", "writer API: record %d differs", i)
			return false
		}
	}
	if fo.hdr.ReadoutInfo.RowNum != 2 || fo.hdr.ReadoutInfo.ColumnNum != 1 || fo.hdr.PixelInfo.Name != "px" || fo.hdr.ChannelNumberMatchingName != 9 {
		c.Violate("c05:off-header", "writer API: header %+v", fo.hdr)
		return false
	}
	c.Cov("api_records", len(ko))
	return true
}

func init() {
	guardsFiles := map[string]map[string]int{
		"quick":    {"sessions": 300, "file_records": 3000, "ljh22_files": 300, "ljh3_files": 300, "off_files": 100, "header_fields_checked": 5000, "api_records": 3000, "blocks_while_paused": 100, "multi_record_batches": 500},
		"thorough": {"sessions": 6000, "file_records": 60000, "ljh22_files": 6000, "ljh3_files": 6000, "off_files": 2000, "api_records": 60000},
	}
	vRegister("C05", &vProp{
		Cases: func(tier string) int {
			if tier == "thorough" {
				return 8000
			}
			return 400
		},
		Run: func(c *vCase) {
			if !vRunWriterAPI(c) {
				return
			}
			vRunWriteHistory(c, "C05")
		},
		Meta: vMeta{Level: "exploration",
			Rule:        "case = (a) the LJH2.2/LJH3/OFF writers' public API with record lengths 1..5000, extreme frame counts/timestamps/floats and random flushes, and (b) an AnySource with random geometry/identity/sub-frame parameters, projectors on a random subset, driven through START(any type subset)/PAUSE/UNPAUSE/STOP histories interleaved with blocks that yield exactly one record per channel; after every STOP each file is decoded by an independent decoder and compared with the channel's true parameters and the records accepted while active and unpaused (order, samples/coefficients, frame/sub-frame count, timestamp, size = header + whole records); non-trivial = at least one finished session",
			Assumptions: []string{"LJH3 first-rising field may equal presamples or presamples+1 (the format leaves the indexing open)", "LJH 2.2 readers ignore unknown keys; the word-size key's spelling is not compared"},
			Guards:      guardsFiles},
	})
	vRegister("C06", &vProp{
		Cases: func(tier string) int {
			if tier == "thorough" {
				return 8000
			}
			return 400
		},
		Run: func(c *vCase) { vRunWriteHistory(c, "C06") },
		Meta: vMeta{Level: "exploration",
			Rule:        "case = history of 5-25 steps biased to requests (START over all 7 type subsets and none, STOP, PAUSE, UNPAUSE, 'UNPAUSE label', malformed UNPAUSE, garbage; redundant and illegal orders) interleaved with blocks yielding one record per channel; after every request the reply class and the reported state are compared with an executable state machine, a successful START must create the next numbered directory, after every STOP the files are decoded and must hold exactly the records published while the model was active and unpaused for every enabled type and eligible channel, and no descriptor below the directory may stay open; non-trivial = at least one finished session",
			Assumptions: []string{"PAUSE/UNPAUSE while not active are accepted requests that only set the flag (as the code's reply shows); START clears it"},
			Guards: map[string]map[string]int{
				"quick":    {"sessions": 300, "state_checks": 2000, "starts_with_preexisting_directories": 80, "rejected_START": 100, "rejected_UNPAUSE": 50, "rejected_garbage": 50, "accepted_PAUSE": 300, "accepted_STOP": 300, "blocks_while_paused": 100, "blocks_while_inactive": 300, "file_records": 1000},
				"thorough": {"sessions": 6000, "state_checks": 40000, "rejected_START": 2000},
			}},
	})
	vRegister("C20", &vProp{
		Cases: func(tier string) int {
			if tier == "thorough" {
				return 6000
			}
			return 320
		},
		Run: func(c *vCase) { vRunWriteHistory(c, "C20") },
		Meta: vMeta{Level: "exploration",
			Rule:        "case = history of 5-60 steps mixing blocks that carry 0-50 external-trigger counts (incl. negative/huge) and drop counts with START/STOP/PAUSE/UNPAUSE/'UNPAUSE label'/state-label requests, several START/STOP cycles, blocks before the first START and after the last STOP; after every STOP the three side files are parsed and compared with the harness's event log (counts delivered while active, one line per block with drops while active, START, accepted labels, STOP with monotone timestamps); nothing may stay open; non-trivial = at least one finished session",
			Assumptions: []string{"events delivered while writing is not active must appear nowhere; pause does not suspend the run log (the statement says 'while writing is active')"},
			Guards: map[string]map[string]int{
				"quick":    {"exttrig_bursts": 100, "sessions": 300, "state_files": 300, "state_lines": 1500, "exttrig_files": 150, "exttrig_counts": 2000, "drop_files": 100, "drop_lines": 200, "labels_accepted": 300, "labels_rejected": 100},
				"thorough": {"sessions": 6000, "exttrig_files": 3000, "drop_files": 2000},
			}},
	})
}
