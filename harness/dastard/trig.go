package PKGNAME

// C01 (records are exact, correctly labelled excerpts) and C02 (triggers sound and
// complete across block edges). Drive: a bare AnySource prepared by the real
// PrepareChannels/PrepareRun, blocks pushed through the real ProcessSegments, every
// record observed on the shared publish channel. Oracles are written from the
// property statements only (reference excerpt of ground truth; independent criterion scan).

import (
	"fmt"
	"math/rand"
	"reflect"
	"sort"
	"strings"
	"time"
)

type vTrigSetting struct {
	ts   TriggerState
	desc string
}

// vGenTrigSetting draws an edge/level/auto combination (no edge-multi).
func vGenTrigSetting(r *rand.Rand, signed bool, period time.Duration, nsamp int) vTrigSetting {
	var ts TriggerState
	kind := r.Intn(9)
	if kind == 8 {
		return vTrigSetting{ts, "none"} // every trigger off: the channel idles until the next settings arrive
	}
	edge := kind == 0 || kind == 3 || kind == 4 || kind == 6
	level := kind == 1 || kind == 3 || kind == 5 || kind == 6
	auto := kind == 2 || kind == 4 || kind == 5 || kind == 6 || kind == 7
	var d []string
	if edge {
		ts.EdgeTrigger = true
		ts.EdgeRising = vChance(r, 0.7)
		ts.EdgeFalling = !ts.EdgeRising || vChance(r, 0.3)
		ts.EdgeLevel = int32(vPick(r, 50, 120, 300, 1000, 5000, 1, 0)) // (0 is a legitimate level: every non-falling stretch triggers)
		d = append(d, fmt.Sprintf("edge(r=%v,f=%v,L=%d)", ts.EdgeRising, ts.EdgeFalling, ts.EdgeLevel))
	}
	if level {
		ts.LevelTrigger = true
		ts.LevelRising = vChance(r, 0.6)
		if signed {
			ts.LevelLevel = RawType(uint16(int16(vPick(r, -3000, -100, 0, 50, 500, 3000))))
		} else {
			ts.LevelLevel = RawType(vPick(r, 500, 2000, 8000, 20000, 32768, 40000))
		}
		d = append(d, fmt.Sprintf("level(r=%v,L=%d)", ts.LevelRising, ts.LevelLevel))
	}
	if auto {
		ts.AutoTrigger = true
		samples := vPick(r, 1, nsamp/2+1, nsamp, nsamp+1, 2*nsamp+3, 5*nsamp, 17*nsamp, 0) // (0: records back to back)
		ts.AutoDelay = time.Duration(samples) * period
		if kind == 7 {
			ts.AutoVetoRange = RawType(vPick(r, 5, 40, 400, 5000))
		}
		d = append(d, fmt.Sprintf("auto(%dsamp,veto=%d)", samples, ts.AutoVetoRange))
	}
	return vTrigSetting{ts, strings.Join(d, "+")}
}

func vGenEMT(r *rand.Rand, npre, nsamp int) (vTrigSetting, bool) {
	var ts TriggerState
	ts.EdgeMulti = true
	ts.EMTState.mode = EMTMode(r.Intn(3))
	ts.EMTState.threshold = int32(vPick(r, 30, 100, 400, 2000, -50, -300))
	maxmono := nsamp - npre
	if maxmono > 6 {
		maxmono = 6
	}
	ts.EMTState.nmonotone = int32(1 + r.Intn(maxmono))
	ts.EMTState.enableZeroThreshold = vChance(r, 0.5)
	ts.EMTState.npre = int32(npre)
	ts.EMTState.nsamp = int32(nsamp)
	ok := ts.EMTState.valid()
	return vTrigSetting{ts, fmt.Sprintf("emt(mode=%d,thr=%d,nmono=%d,zt=%v)", ts.EMTState.mode, ts.EMTState.threshold,
		ts.EMTState.nmonotone, ts.EMTState.enableZeroThreshold)}, ok
}

func vGenLengths(r *rand.Rand) (npre, nsamp int) {
	switch r.Intn(6) {
	case 0:
		npre = 3 + r.Intn(3)
		nsamp = npre + 1 + r.Intn(4)
	case 1:
		npre = 4 + r.Intn(20)
		nsamp = npre + 4 + r.Intn(40)
	case 2:
		npre = 50 + r.Intn(200)
		nsamp = npre + 1 + r.Intn(350)
	default:
		npre = 4 + r.Intn(60)
		nsamp = npre + 4 + r.Intn(120)
	}
	return
}

type vEpoch struct {
	firstBlock int
	startFrame FrameIndex // first frame of the first block of the epoch
	endFrame   FrameIndex // one past the last frame delivered in the epoch
	npre       int
	nsamp      int
	lenChanged bool
	set        []vTrigSetting // per channel
	how        string
}

type vTrigRun struct {
	c       *vCase
	f       *vFeed
	nchan   int
	npre    int
	nsamp   int
	epochs  []*vEpoch
	recs    [][]vSeenRec // per channel
	blocks  []int
	cuts    map[FrameIndex]bool
	fixed   bool // all records must have the configured lengths
	emt     bool
	groups  bool
	period  time.Duration
	jitter  bool
	crashed bool
}

type vSeenRec struct {
	rec        *DataRecord
	epoch      int
	blockFirst FrameIndex
	blockTime  time.Time
	blockLen   int
}

// checkExcerpt applies the C01 oracle to one record.
func (tr *vTrigRun) checkExcerpt(s vSeenRec) {
	c, f, rec := tr.c, tr.f, s.rec
	ch := rec.channelIndex
	if ch < 0 || ch >= tr.nchan {
		c.Violate("c01:channel", "record with channel index %d outside 0..%d", ch, tr.nchan-1)
		return
	}
	ep := tr.epochs[s.epoch]
	if tr.fixed {
		if len(rec.data) != ep.nsamp || rec.presamples != ep.npre {
			c.Violate("c01:length", "record %s has length/presamples %d/%d, configured %d/%d", vFmtRec(rec), len(rec.data), rec.presamples, ep.nsamp, ep.npre)
			return
		}
	}
	if rec.presamples < 0 || rec.presamples > len(rec.data) {
		c.Violate("c01:presamples", "record %s: presamples outside record", vFmtRec(rec))
		return
	}
	rel := int(rec.trigFrame - f.firstFrame)
	lo := rel - rec.presamples
	hi := lo + len(rec.data)
	if lo < 0 || hi > f.pos {
		c.Violate("c01:range", "record %s covers samples [%d,%d) of the stream but only [0,%d) were delivered", vFmtRec(rec), lo, hi, f.pos)
		return
	}
	truth := f.truth[ch][lo:hi]
	for i := range truth {
		if truth[i] != rec.data[i] {
			c.Violate("c01:samples", "record %s sample %d is %d, the source delivered %d for frame %d (epoch %d %s)",
				vFmtRec(rec), i, rec.data[i], truth[i], int(f.firstFrame)+lo+i, s.epoch, ep.how)
			return
		}
	}
	// trigger time: extrapolated from the emitting block, or (jitter) from the block that contains the sample
	want := s.blockTime.Add(time.Duration(int64(rec.trigFrame-s.blockFirst)) * tr.period)
	if !rec.trigTime.Equal(want) {
		ok := false
		if tr.jitter {
			// containing block
			if bt, bf, found := tr.blockContaining(rec.trigFrame); found {
				ok = rec.trigTime.Equal(bt.Add(time.Duration(int64(rec.trigFrame-bf)) * tr.period))
			}
		}
		if !ok {
			c.Violate("c01:time", "record %s trigger time %v, block time stamps assign %v (diff %v)", vFmtRec(rec),
				rec.trigTime.UnixNano(), want.UnixNano(), rec.trigTime.Sub(want))
			return
		}
	}
	if rec.signed != f.signed[ch] {
		c.Violate("c01:signed", "record %s signed=%v, channel is signed=%v", vFmtRec(rec), rec.signed, f.signed[ch])
	}
	if rec.voltsPerArb != f.ds.VoltsPerArb()[ch] {
		c.Violate("c01:voltsPerArb", "record %s voltsPerArb %v want %v", vFmtRec(rec), rec.voltsPerArb, f.ds.VoltsPerArb()[ch])
	}
	if rec.sampPeriod != float32(1.0/f.ds.sampleRate) {
		c.Violate("c01:sampPeriod", "record %s sampPeriod %v want %v", vFmtRec(rec), rec.sampPeriod, float32(1.0/f.ds.sampleRate))
	}
	c.Cov("records", 1)
	// does the excerpt span a block cut?
	for cut := range tr.cuts {
		r := int(cut - f.firstFrame)
		if r > lo && r < hi {
			c.Cov("records_spanning_cut", 1)
			break
		}
	}
	if s.blockFirst-rec.trigFrame > FrameIndex(rec.presamples) {
		c.Cov("records_from_retained_data", 1)
	}
}

type vBlockInfo struct {
	first FrameIndex
	n     int
	t     time.Time
}

var vBlockLog []vBlockInfo

func (tr *vTrigRun) blockContaining(fr FrameIndex) (time.Time, FrameIndex, bool) {
	for _, b := range vBlockLog {
		if fr >= b.first && fr < b.first+FrameIndex(b.n) {
			return b.t, b.first, true
		}
	}
	return time.Time{}, 0, false
}

// vCrit evaluates the trigger criteria on ground truth (independent of the code under test).
type vCrit struct {
	v []int // shifted to unsigned domain like the statement: int16 view if signed, else uint16
}

func newCrit(truth []RawType, signed bool) *vCrit {
	v := make([]int, len(truth))
	for i, x := range truth {
		v[i] = vSigned(x, signed)
	}
	return &vCrit{v}
}

func (k *vCrit) edge(i int, ts *TriggerState) bool {
	if i < 3 || i >= len(k.v) {
		return false
	}
	d := k.v[i] + k.v[i-1] - k.v[i-2] - k.v[i-3]
	return (ts.EdgeRising && d >= int(ts.EdgeLevel)) || (ts.EdgeFalling && d <= -int(ts.EdgeLevel))
}

func (k *vCrit) level(i int, ts *TriggerState, signed bool) bool {
	if i < 1 || i >= len(k.v) {
		return false
	}
	L := vSigned(ts.LevelLevel, signed)
	if ts.LevelRising {
		return k.v[i] >= L && k.v[i-1] < L
	}
	return k.v[i] <= L && k.v[i-1] > L
}

// checkTriggers applies the C02 oracle to one channel.
func (tr *vTrigRun) checkTriggers(ch int) {
	c, f := tr.c, tr.f
	signed := f.signed[ch]
	crit := newCrit(f.truth[ch][:f.pos], signed)
	recs := tr.recs[ch]
	allT := make([]int, 0, len(recs))
	for _, s := range recs {
		allT = append(allT, int(s.rec.trigFrame-f.firstFrame))
	}
	sorted := append([]int(nil), allT...)
	sort.Ints(sorted)
	nearest := func(i int) (below, above int) { // nearest trigger <= i and >= i (or huge sentinels)
		k := sort.SearchInts(sorted, i)
		below, above = -1<<40, 1<<40
		if k < len(sorted) {
			above = sorted[k]
			if above == i {
				below = i
				return
			}
		}
		if k > 0 {
			below = sorted[k-1]
		}
		return
	}
	for ei, ep := range tr.epochs {
		ts := &ep.set[ch].ts
		nsamp, npre := ep.nsamp, ep.npre
		// 1. soundness of every primary emitted in this epoch
		var epT []int
		for _, s := range recs {
			if s.epoch != ei {
				continue
			}
			i := int(s.rec.trigFrame - f.firstFrame)
			epT = append(epT, i)
			ok := false
			if ts.EdgeTrigger && crit.edge(i, ts) {
				ok = true
				c.Cov("sound_edge", 1)
			}
			if !ok && ts.LevelTrigger && crit.level(i, ts, signed) {
				ok = true
				c.Cov("sound_level", 1)
			}
			if !ok && ts.AutoTrigger {
				ok = true
				c.Cov("sound_auto", 1)
				if ts.AutoVetoRange > 0 {
					lo := i - s.rec.presamples
					mx, mn := 0, 1<<20
					for _, x := range f.truth[ch][lo : lo+len(s.rec.data)] {
						if int(x) > mx {
							mx = int(x)
						}
						if int(x) < mn {
							mn = int(x)
						}
					}
					if mx-mn >= int(ts.AutoVetoRange) {
						ok = false
					}
				}
			}
			if !ok {
				c.Violate("c02:unsound", "channel %d: primary record at frame %d (epoch %d: %s, %s) sits on a sample satisfying no enabled criterion",
					ch, s.rec.trigFrame, ei, ep.set[ch].desc, ep.how)
				return
			}
		}
		sort.Ints(epT)
		// 6. no pulse invented: one epoch never yields two primaries at the same frame of a channel
		for k := 1; k < len(epT); k++ {
			if epT[k] == epT[k-1] {
				c.Violate("c02:duplicate", "channel %d: two primary records at the same frame %d within one configuration epoch (epoch %d: %s; %s)", ch, int(f.firstFrame)+epT[k], ei, ep.set[ch].desc, ep.how)
				return
			}
		}
		// decidable domain of the epoch, in stream-relative sample indices
		lo := int(ep.startFrame - f.firstFrame)
		if ep.lenChanged {
			lo += npre
		}
		// A record needs npre samples before its trigger. After the record length grew, only the history kept for
		// the OLD length exists, so samples closer than the new npre to the most recent length change cannot be
		// triggered yet, in this epoch or in one that begins a few (possibly 1-sample) blocks later.
		for ej := ei; ej >= 0; ej-- {
			if tr.epochs[ej].lenChanged {
				if l2 := int(tr.epochs[ej].startFrame-f.firstFrame) + npre; l2 > lo {
					lo = l2
				}
				break
			}
		}
		if lo < npre {
			lo = npre
		}
		hi := int(ep.endFrame-f.firstFrame) - (nsamp - npre) // exclusive
		if hi <= lo {
			continue
		}
		// 2/3. completeness
		for i := lo; i < hi; i++ {
			if ts.EdgeTrigger && crit.edge(i, ts) {
				c.Cov("edge_satisfying", 1)
				below, _ := nearest(i)
				if !(below == i || (below < i && i <= below+nsamp)) {
					c.Violate("c02:edge-missed", "channel %d: frame %d satisfies the edge criterion (epoch %d: %s; %s; npre/nsamp %d/%d) but is neither a trigger nor within one record after a trigger (previous trigger at %d)",
						ch, int(f.firstFrame)+i, ei, ep.set[ch].desc, ep.how, npre, nsamp, int(f.firstFrame)+below)
					return
				}
				tr.nearCut(i, nsamp, "edge_near_cut")
				if ei == 0 && i < tr.blocks[0] {
					c.Cov("crit_in_first_block", 1)
				}
				if ei > 0 && i-lo < 2*nsamp {
					c.Cov("crit_after_reconfig", 1)
				}
			}
			if ts.LevelTrigger && crit.level(i, ts, signed) {
				c.Cov("level_satisfying", 1)
				below, above := nearest(i)
				if !(i-below <= nsamp || above-i <= nsamp) {
					c.Violate("c02:level-missed", "channel %d: frame %d satisfies the level criterion (epoch %d: %s; %s; npre/nsamp %d/%d) but no trigger within one record length (nearest %d / %d)",
						ch, int(f.firstFrame)+i, ei, ep.set[ch].desc, ep.how, npre, nsamp, int(f.firstFrame)+below, int(f.firstFrame)+above)
					return
				}
				tr.nearCut(i, nsamp, "level_near_cut")
			}
		}
		// 2b. the zone between two domains at a change of lengths: the last npost(old) samples of the previous epoch were not
		// examined under the old lengths, and they are examined under the new ones when the history kept for the old length
		// (2*nsamp+10 samples) reaches npre(new) samples further back than they do. That is the case whenever
		// npre(new) <= nsamp(old)+npre(old)+10 and the previous epoch delivered at least that much history.
		// The same holds, more simply, when only the trigger settings changed (or an unchanged request was repeated): the
		// new settings are applied to everything not yet examined, and the history kept always reaches back far enough.
		if ei > 0 && ts.EdgeTrigger {
			old := tr.epochs[ei-1]
			on, op := old.nsamp, old.npre
			oldEnd := int(old.endFrame - f.firstFrame)
			enough := int(old.endFrame-old.startFrame) >= 2*on+10
			if (ep.lenChanged && npre <= on+op+10 && enough && reflect.DeepEqual(old.set[ch].ts, *ts)) || (!ep.lenChanged && !old.lenChanged && on == nsamp && op == npre && enough) {
				zlo, zhi := oldEnd-(on-op), lo
				if zlo < 3 {
					zlo = 3
				}
				if zhi > hi {
					zhi = hi
				}
				for i := zlo; i < zhi; i++ {
					if crit.edge(i, ts) {
						c.Cov("edge_satisfying_at_a_change_of_lengths", 1)
						below, _ := nearest(i)
						if !(below == i || (below < i && i <= below+nsamp)) {
							c.Violate("c02:edge-missed", "channel %d: frame %d satisfies the edge criterion; it lies in the part of the stream that had not been examined when the record lengths changed from %d/%d to %d/%d at frame %d (epoch %d: %s), and it is neither a trigger nor within one record after a trigger (previous trigger at %d)",
								ch, int(f.firstFrame)+i, op, on, npre, nsamp, int(f.firstFrame)+oldEnd, ei, ep.set[ch].desc, int(f.firstFrame)+below)
							return
						}
					}
				}
			}
		}
		// 4. no overlap, edge-only epochs
		if ts.EdgeTrigger && !ts.LevelTrigger && !ts.AutoTrigger {
			for k := 1; k < len(epT); k++ {
				c.Cov("overlap_pairs", 1)
				if epT[k]-epT[k-1] < nsamp {
					c.Violate("c02:overlap", "channel %d: edge-only epoch %d has triggers at %d and %d, closer than one record (%d)", ch, ei,
						int(f.firstFrame)+epT[k-1], int(f.firstFrame)+epT[k], nsamp)
					return
				}
			}
		}
		// 5b. an auto record (a primary on a sample that satisfies no other enabled criterion) comes a full auto delay, and at least
		// one record, after the previous trigger of the channel: triggers in between restart the delay
		if ts.AutoTrigger {
			delay := int(ts.AutoDelay.Seconds()*f.ds.sampleRate + 0.5)
			if delay < nsamp {
				delay = nsamp
			}
			for k := 1; k < len(epT); k++ {
				t := epT[k]
				if t < 3 || (ts.EdgeTrigger && crit.edge(t, ts)) || (ts.LevelTrigger && crit.level(t, ts, signed)) {
					continue
				}
				c.Cov("auto_records_checked", 1)
				if t-epT[k-1] < delay {
					c.Violate("c02:auto-early", "channel %d: the record at frame %d (epoch %d: %s; %s) satisfies no criterion but the auto trigger's, and the previous trigger was at frame %d, only %d samples earlier (auto delay %d samples, records of %d)",
						ch, int(f.firstFrame)+t, ei, ep.set[ch].desc, ep.how, int(f.firstFrame)+epT[k-1], t-epT[k-1], delay, nsamp)
					return
				}
			}
		}
		// 5. auto bound, no veto
		if ts.AutoTrigger && ts.AutoVetoRange == 0 {
			delay := int(ts.AutoDelay.Seconds()*f.ds.sampleRate + 0.5)
			if delay < nsamp {
				delay = nsamp
			}
			bound := delay + nsamp
			prev := lo
			for _, t := range epT {
				if t < lo {
					continue
				}
				c.Cov("auto_gaps", 1)
				if t-prev > bound {
					c.Violate("c02:auto-gap", "channel %d: auto trigger without veto (epoch %d: %s; %s) but no trigger between frames %d and %d (gap %d > %d)",
						ch, ei, ep.set[ch].desc, ep.how, int(f.firstFrame)+prev, int(f.firstFrame)+t, t-prev, bound)
					return
				}
				prev = t
			}
			if hi-prev > bound {
				c.Violate("c02:auto-gap", "channel %d: auto trigger without veto (epoch %d: %s; %s) but no trigger after frame %d up to the end of the decidable domain %d (gap %d > %d)",
					ch, ei, ep.set[ch].desc, ep.how, int(f.firstFrame)+prev, int(f.firstFrame)+hi, hi-prev, bound)
				return
			}
		}
	}
}

func (tr *vTrigRun) nearCut(i, nsamp int, key string) {
	for d := -nsamp; d <= nsamp; d++ {
		if tr.cuts[tr.f.firstFrame+FrameIndex(i+d)] {
			tr.c.Cov(key, 1)
			return
		}
	}
}

// vRunTrigCase builds and runs one case. prop is "C01" or "C02".
func vRunTrigCase(c *vCase, prop string) {
	r := c.R
	nchan := 1 + r.Intn(4)
	period := vPick(r, 10*time.Microsecond, 6400*time.Nanosecond, time.Millisecond, 1280*time.Nanosecond)
	vFeedRate = 0
	if vChance(r, 0.4) {
		// a rate whose period is not a whole number of ns: block and record times go by the ns-rounded frame period
		vFeedRate = vPick(r, 245000.0, 30000.0, 125e6/1024, 99999.7)
		period = time.Duration(roundint(1e9 / vFeedRate))
		c.Cov("fractional_ns_sample_period", 1)
	}
	defer func() { vFeedRate = 0 }()
	npre, nsamp := vGenLengths(r)
	firstFrame := FrameIndex(vPick(r, 0, 0, 17, 5000, 1<<40))
	allowEMT := prop == "C01"
	mode := "plain"
	if allowEMT {
		mode = vPick(r, "plain", "plain", "plain", "emt", "group", "group", "emtgroup")
		if mode == "emtgroup" && nchan < 2 {
			nchan = 2 + r.Intn(3)
		}
	}
	// directed family: edge-multi with a short pre-trigger and a long record, and the trigger point moved far up and
	// down again several times during the run (a pulse waiting for its successor is cut under other lengths than it was found under)
	emtRaise := prop == "C01" && c.Idx%5 == 2
	if emtRaise {
		mode = "emt"
		npre = 4 + r.Intn(6)
		nsamp = npre + 30 + r.Intn(60)
	}
	tr := &vTrigRun{c: c, nchan: nchan, npre: npre, nsamp: nsamp, period: period, fixed: true, cuts: map[FrameIndex]bool{}}
	if mode == "emt" || mode == "emtgroup" {
		if npre < 4 {
			npre = 4
		}
		if nsamp-npre < 4 {
			nsamp = npre + 4
		}
		tr.npre, tr.nsamp = npre, nsamp
	}
	signed := make([]bool, nchan)
	for i := range signed {
		signed[i] = vChance(r, 0.4)
	}
	emtSrc := 0 // the edge-multi source channel of mode emtgroup: the first or the last channel
	if mode == "emtgroup" && vChance(r, 0.5) {
		emtSrc = nchan - 1
	}
	genSet := func() []vTrigSetting {
		set := make([]vTrigSetting, nchan)
		if mode == "emt" {
			for {
				s, ok := vGenEMT(r, tr.npre, tr.nsamp)
				if ok {
					for ch := range set {
						set[ch] = s
					}
					if s.ts.EMTState.mode == EMTRecordsVariableLength {
						tr.fixed = false
					}
					break
				}
			}
			return set
		}
		if mode == "emtgroup" {
			// an edge-multi source channel feeding receivers that use the ordinary triggers (or none)
			for {
				s, ok := vGenEMT(r, tr.npre, tr.nsamp)
				if ok && s.ts.EMTState.mode != EMTRecordsVariableLength {
					set[emtSrc] = s
					break
				}
			}
			for ch := 0; ch < nchan; ch++ {
				if ch == emtSrc {
					continue
				}
				if vChance(r, 0.5) {
					set[ch] = vGenTrigSetting(r, signed[ch], period, tr.nsamp)
				} else {
					set[ch] = vTrigSetting{desc: "none"}
				}
			}
			return set
		}
		shared := vChance(r, 0.5)
		for ch := range set {
			if ch == 0 || !shared {
				set[ch] = vGenTrigSetting(r, signed[ch], period, tr.nsamp)
			} else {
				set[ch] = set[0]
				if signed[ch] != signed[0] {
					set[ch] = vGenTrigSetting(r, signed[ch], period, tr.nsamp)
				}
			}
		}
		return set
	}
	// epoch 0: restored from configuration, or applied through ChangeTriggerState before the first block
	set0 := genSet()
	how0 := vPick(r, "restored", "configured")
	if mode == "emt" || mode == "emtgroup" {
		how0 = "configured" // edge-multi is documented as not restored
	}
	var restored []FullTriggerState
	if how0 == "restored" {
		for ch := 0; ch < nchan; ch++ {
			restored = append(restored, FullTriggerState{ChannelIndices: []int{ch}, TriggerState: set0[ch].ts})
		}
	}
	f, err := vNewFeed(nchan, period, tr.npre, tr.nsamp, restored)
	if err != nil {
		c.Inconclusive("setup", "PrepareRun failed: %v", err)
		return
	}
	defer f.close()
	tr.f = f
	f.firstFrame = firstFrame
	copy(f.signed, signed)
	total := 2000 + r.Intn(6000)
	if c.Tier == "thorough" && vChance(r, 0.2) {
		total = 10000 + r.Intn(30000)
	}
	style := r.Intn(6)
	f.truth = make([][]RawType, nchan)
	for ch := range f.truth {
		f.truth[ch] = vGenStream(r, total, signed[ch], style)
	}
	pkind := r.Intn(6)
	tr.blocks = vGenPartition(r, total, tr.nsamp, pkind)
	tr.jitter = prop == "C01" && vChance(r, 0.2)
	if tr.jitter {
		f.jitter = []time.Duration{0, 3 * time.Microsecond, -2 * time.Microsecond, 11 * time.Nanosecond}
	}
	apply := func(set []vTrigSetting) error {
		for ch := 0; ch < nchan; ch++ {
			st := FullTriggerState{ChannelIndices: []int{ch}, TriggerState: set[ch].ts}
			if err := f.ds.ChangeTriggerState(&st); err != nil {
				return err
			}
		}
		return nil
	}
	if how0 == "configured" {
		if err := apply(set0); err != nil {
			c.Inconclusive("setup", "ChangeTriggerState rejected a valid setting: %v", err)
			return
		}
	}
	if mode == "emtgroup" {
		tr.groups = true
		conns := map[int][]int{emtSrc: {}}
		for rx := 0; rx < nchan; rx++ {
			if rx != emtSrc {
				conns[emtSrc] = append(conns[emtSrc], rx)
			}
		}
		f.ds.ChangeGroupTrigger(true, &GroupTriggerState{Connections: conns})
	}
	if mode == "group" {
		tr.groups = true
		nconn := 1 + r.Intn(2*nchan)
		conns := map[int][]int{}
		for k := 0; k < nconn; k++ {
			s, rx := r.Intn(nchan), r.Intn(nchan)
			conns[s] = append(conns[s], rx)
		}
		f.ds.ChangeGroupTrigger(true, &GroupTriggerState{Connections: conns})
	}
	tr.epochs = []*vEpoch{{firstBlock: 0, startFrame: firstFrame, npre: tr.npre, nsamp: tr.nsamp, set: set0, how: how0}}
	tr.recs = make([][]vSeenRec, nchan)
	// schedule reconfigurations (C02 mostly; C01 a little)
	nreconf := 0
	if vChance(r, 0.6) {
		nreconf = 1 + r.Intn(3)
	}
	reconfAt := map[int]string{}
	for k := 0; k < nreconf && len(tr.blocks) > 2; k++ {
		reconfAt[1+r.Intn(len(tr.blocks)-1)] = vPick(r, "trig", "trig", "len-same", "len-change", "npre-only", "len-shrink", "trig-flip")
	}
	if emtRaise && len(tr.blocks) > 2 {
		reconfAt = map[int]string{}
		for k := 0; k < 4+r.Intn(8); k++ {
			reconfAt[1+r.Intn(len(tr.blocks)-1)] = "npre-swing"
		}
		c.Cov("emt_npre_swing_cases", 1)
	}
	// requests that are refused (invalid edge-multi parameters): they must leave the stream as it was, so no epoch starts
	refuseAt := map[int]bool{}
	if vChance(r, 0.4) && len(tr.blocks) > 2 {
		for k := 0; k < 1+r.Intn(3); k++ {
			refuseAt[1+r.Intn(len(tr.blocks)-1)] = true
		}
	}
	c.Describe("%s nchan=%d signed=%v npre/nsamp=%d/%d first=%d period=%v total=%d style=%d part=%s(%d blocks) mode=%s how0=%s set0=%s reconf=%v refused=%d jitter=%v",
		prop, nchan, signed, tr.npre, tr.nsamp, firstFrame, period, total, style, vPartitionName(pkind), len(tr.blocks), mode, how0, set0[0].desc, reconfAt, len(refuseAt), tr.jitter)
	c.Distinct("partition", vPartitionName(pkind))
	c.Distinct("mode", mode+"/"+how0)
	vBlockLog = vBlockLog[:0]
	cur := tr.epochs[0]
	for bi, n := range tr.blocks {
		if what, ok := reconfAt[bi]; ok {
			// close the current epoch and open a new one
			cur.endFrame = firstFrame + FrameIndex(f.pos)
			ne := &vEpoch{firstBlock: bi, startFrame: cur.endFrame, npre: cur.npre, nsamp: cur.nsamp, set: cur.set, how: what}
			switch what {
			case "trig-flip":
				// the settings in force with one detail changed: the direction of the level trigger (or of the edge trigger) turned round
				ne.set = append([]vTrigSetting(nil), cur.set...)
				flipped := false
				for ch := range ne.set {
					t := &ne.set[ch].ts
					switch {
					case t.EdgeMulti:
					case t.LevelTrigger:
						t.LevelRising = !t.LevelRising
						ne.set[ch].desc += "/level-direction-flipped"
						flipped = true
					case t.EdgeTrigger && (t.EdgeRising != t.EdgeFalling):
						t.EdgeRising, t.EdgeFalling = t.EdgeFalling, t.EdgeRising
						ne.set[ch].desc += "/edge-direction-flipped"
						flipped = true
					}
				}
				if flipped {
					c.Cov("reconf_one_detail_flipped", 1)
				}
				if err := apply(ne.set); err != nil {
					c.Inconclusive("setup", "ChangeTriggerState rejected a valid setting: %v", err)
					return
				}
			case "trig":
				ne.set = genSet()
				if err := apply(ne.set); err != nil {
					c.Inconclusive("setup", "ChangeTriggerState rejected a valid setting: %v", err)
					return
				}
			case "len-same":
				if err := f.ds.ConfigurePulseLengths(cur.nsamp, cur.npre); err != nil {
					c.Inconclusive("setup", "ConfigurePulseLengths rejected: %v", err)
					return
				}
			case "npre-swing":
				if cur.npre < cur.nsamp/2 {
					ne.npre = cur.nsamp - 6 - r.Intn(3)
				} else {
					ne.npre = 4 + r.Intn(6)
				}
				ne.lenChanged = true
				c.Cov("reconf_npre_only", 1)
				if err := f.ds.ConfigurePulseLengths(ne.nsamp, ne.npre); err != nil {
					c.Inconclusive("setup", "ConfigurePulseLengths(%d,%d) rejected: %v", ne.nsamp, ne.npre, err)
					return
				}
			case "npre-only":
				// same record length, the trigger point moved (far up in half of the cases): whatever the search
				// remembered about the stream under the old lengths must not be used to cut records under the new ones
				emt := mode == "emt" || mode == "emtgroup"
				lo, hi := 3, cur.nsamp-1
				if emt {
					lo, hi = 4, cur.nsamp-6
				}
				if hi <= lo {
					ne.how = "len-same"
				} else {
					for ne.npre == cur.npre {
						ne.npre = lo + r.Intn(hi-lo+1)
						if vChance(r, 0.5) {
							ne.npre = hi - r.Intn(min(3, hi-lo))
						}
					}
					ne.lenChanged = true
					c.Cov("reconf_npre_only", 1)
				}
				if err := f.ds.ConfigurePulseLengths(ne.nsamp, ne.npre); err != nil {
					c.Inconclusive("setup", "ConfigurePulseLengths(%d,%d) rejected: %v", ne.nsamp, ne.npre, err)
					return
				}
			case "len-shrink":
				// much shorter records: twice the new length is less than the part of the stream the old lengths had left unexamined
				if emt := mode == "emt" || mode == "emtgroup"; emt || cur.nsamp-cur.npre < 30 {
					ne.how = "len-same"
				} else {
					ne.nsamp = 5 + r.Intn((cur.nsamp-cur.npre-10)/2-4)
					ne.npre = 3 + r.Intn(ne.nsamp-4)
					ne.lenChanged = true
					c.Cov("reconf_shrink", 1)
				}
				if err := f.ds.ConfigurePulseLengths(ne.nsamp, ne.npre); err != nil {
					c.Inconclusive("setup", "ConfigurePulseLengths(%d,%d) rejected: %v", ne.nsamp, ne.npre, err)
					return
				}
			case "len-change":
				for {
					ne.npre, ne.nsamp = vGenLengths(r)
					if (mode == "emt" || mode == "emtgroup") && (ne.npre < 4 || ne.nsamp-ne.npre < 6) {
						continue
					}
					if ne.npre != cur.npre || ne.nsamp != cur.nsamp {
						break
					}
				}
				ne.lenChanged = true
				if err := f.ds.ConfigurePulseLengths(ne.nsamp, ne.npre); err != nil {
					c.Inconclusive("setup", "ConfigurePulseLengths(%d,%d) rejected: %v", ne.nsamp, ne.npre, err)
					return
				}
			}
			tr.epochs = append(tr.epochs, ne)
			cur = ne
			c.Cov("reconfigurations", 1)
		}
		if refuseAt[bi] {
			bad := TriggerState{EdgeMulti: true, EdgeRising: true, EdgeLevel: 10}
			bad.EMTState.nmonotone = int32(cur.nsamp + 100)
			for ch := 0; ch < nchan; ch++ {
				before := f.ds.processors[ch].TriggerState
				if err := f.ds.ChangeTriggerState(&FullTriggerState{ChannelIndices: []int{ch}, TriggerState: bad}); err == nil {
					c.Inconclusive("setup", "ChangeTriggerState accepted edge-multi settings with nmonotone > post-trigger length; the epoch model does not cover that")
					return
				}
				if after := f.ds.processors[ch].TriggerState; !reflect.DeepEqual(before, after) {
					c.Violate("c01:refused-request-changed-settings", "channel %d: a trigger request was refused (edge-multi with nmonotone %d > post-trigger length), but the channel's trigger settings changed from %+v to %+v", ch, bad.EMTState.nmonotone, before, after)
					return
				}
			}
			c.Cov("refused_trigger_requests", 1)
			if mode == "emtgroup" {
				// a record-length request that the edge-multi channel cannot accept (the others could): it is refused as a whole,
				// no channel changes its lengths
				es := cur.set[emtSrc].ts.EMTState
				ns2, np2 := 0, 0
				switch {
				case es.nmonotone >= 2:
					np2, ns2 = cur.npre, cur.npre+int(es.nmonotone)-1
				case es.enableZeroThreshold:
					np2, ns2 = 3, 3+(cur.nsamp-cur.npre)
				}
				if ns2 > np2 && np2 >= 3 {
					if err := f.ds.ConfigurePulseLengths(ns2, np2); err == nil {
						c.Inconclusive("setup", "ConfigurePulseLengths(%d,%d) was accepted although the edge-multi settings %+v of channel %d do not allow it; the epoch model does not cover that", ns2, np2, es, emtSrc)
						return
					}
					for ch := 0; ch < nchan; ch++ {
						if d := f.ds.processors[ch]; d.NSamples != cur.nsamp || d.NPresamples != cur.npre {
							c.Violate("c01:refused-request-changed-settings", "ConfigurePulseLengths(%d,%d) was refused (channel %d's edge-multi settings do not allow it), but channel %d now makes records of %d/%d instead of %d/%d", ns2, np2, emtSrc, ch, d.NSamples, d.NPresamples, cur.nsamp, cur.npre)
							return
						}
					}
					c.Cov("refused_length_requests", 1)
				}
			}
		}
		tr.cuts[firstFrame+FrameIndex(f.pos)] = true
		if (bi+c.Idx)%4 == 1 {
			// status reads between blocks (the server collects the state of all channels after any request): they change nothing
			f.ds.ComputeFullTriggerState()
			f.ds.ComputeGroupTriggerState()
			f.ds.ComputeWritingState()
			c.Cov("status_reads_between_blocks", 1)
		}
		recs, err := f.push(n, nil, 0)
		vBlockLog = append(vBlockLog, vBlockInfo{f.lastBlockFirstFrame, f.lastBlockLen, f.lastBlockFirstTime})
		if err != nil {
			c.Violate("c01:process-error", "ProcessSegments returned an error: %v", err)
			return
		}
		for _, rec := range recs {
			ch := rec.channelIndex
			s := vSeenRec{rec: rec, epoch: len(tr.epochs) - 1, blockFirst: f.lastBlockFirstFrame, blockTime: f.lastBlockFirstTime, blockLen: f.lastBlockLen}
			if ch >= 0 && ch < nchan {
				tr.recs[ch] = append(tr.recs[ch], s)
			}
			if prop == "C01" {
				tr.checkExcerpt(s)
				if c.Violated() {
					return
				}
			}
		}
	}
	cur.endFrame = firstFrame + FrameIndex(f.pos)
	c.Cov("blocks", len(tr.blocks))
	nrec := 0
	for ch := range tr.recs {
		nrec += len(tr.recs[ch])
	}
	if prop == "C02" {
		for ch := 0; ch < nchan; ch++ {
			tr.checkTriggers(ch)
			if c.Violated() {
				return
			}
		}
		c.Cov("primaries", nrec)
	}
	if mode == "emt" {
		c.Cov("records_emt", nrec)
	}
	if mode == "group" {
		c.Cov("records_groupcase", nrec)
	}
	if nrec > 0 {
		c.Nontrivial()
	}
}

func init() {
	vRegister("C01", &vProp{
		Cases: func(tier string) int {
			if tier == "thorough" {
				return 12000
			}
			return 1440
		},
		Run: func(c *vCase) { vRunTrigCase(c, "C01") },
		Meta: vMeta{
			Level: "exploration",
			Rule:  "case = (channels, signedness, npre/nsamp, first frame, period, ground-truth streams with planted pulses and adversarial segments, block partition family, trigger mode incl. edge-multi and group connections, reconfiguration schedule), all drawn from PRNG(seed,idx); every record observed on the shared publish channel is compared with the ground truth excerpt, frame and time; non-trivial = at least one record emitted; distinct = distinct case descriptions",
			Assumptions: []string{"records are observed on the shared publish channel (PubRecordsChan) that every channel processor sends to; the ZMQ encoding is C14's subject",
				"block time stamps are synthetic and consistent (T0 + frame*period) except in the jitter family, where extrapolation from the emitting or the containing block is accepted",
				"decimation is not exercised (no control request can enable it)"},
			Guards: map[string]map[string]int{
				"quick":    {"records": 3000, "records_spanning_cut": 300, "records_from_retained_data": 20, "records_emt": 100, "records_groupcase": 100},
				"thorough": {"records": 60000, "records_spanning_cut": 6000, "records_from_retained_data": 400, "records_emt": 2000, "records_groupcase": 2000},
			},
		},
	})
	vRegister("C02", &vProp{
		Cases: func(tier string) int {
			if tier == "thorough" {
				return 16000
			}
			return 640
		},
		Run: func(c *vCase) { vRunTrigCase(c, "C02") },
		Meta: vMeta{
			Level: "exploration",
			Rule:  "case as C01 without edge-multi/group; control history = settings restored from configuration or applied by ChangeTriggerState, then 0-3 reconfigurations (new trigger settings, ConfigurePulseLengths same/changed/much shorter) between blocks; oracle = independent scan of the ground truth for the edge and level criteria per epoch (soundness, edge completeness with one-record dead time, level completeness within one record, no overlap for edge-only, auto gap bound, an auto record at least a full auto delay after the channel's previous trigger); across a reconfiguration that leaves the lengths alone the samples the old settings had not examined are checked under the new ones; non-trivial = at least one primary emitted",
			Assumptions: []string{"decidable domain of an epoch: from its first block (plus npre after a length change, and never before stream start + npre) to npost samples before its last delivered frame; samples outside are exempt, except at a change of lengths: the unexamined end of the previous epoch and the first npre samples of the new one are checked for edge completeness (dead time of the new length) whenever the history kept for the old length reaches far enough back (npre(new) <= nsamp(old)+npre(old)+10, previous epoch at least 2*nsamp(old)+10 frames long, same trigger settings)",
				"dead time after a trigger T is T < i <= T+nsamp (inside a block the scan resumes at T+nsamp+1, across blocks at T+nsamp; both are readings of 'one-record dead time')"},
			Guards: map[string]map[string]int{
				"quick":    {"primaries": 3000, "edge_satisfying": 2000, "level_satisfying": 300, "edge_near_cut": 500, "crit_in_first_block": 30, "crit_after_reconfig": 30, "overlap_pairs": 100, "auto_gaps": 500, "sound_edge": 200, "sound_level": 100, "sound_auto": 200},
				"thorough": {"primaries": 60000, "edge_satisfying": 40000, "level_satisfying": 6000, "edge_near_cut": 10000, "crit_in_first_block": 600, "crit_after_reconfig": 600, "overlap_pairs": 2000, "auto_gaps": 10000},
			},
		},
	})
}
