package PKGNAME

// C19 — channel identity is unique and consistent everywhere it is reported.
//
// Drive: LanceroSource objects assembled in-package (1-4 devices with arbitrary device
// numbers, rows, columns; first-row number; card and column separations incl. negative,
// zero, too small, exact and large) go through the real PrepareChannels; Abaco group
// layouts (disjoint, adjacent, overlapping by one or more channels, nested) go through the
// real Sample + PrepareChannels with scripted packets; Triangle/SimPulse/Roach/AnySource
// defaults through their own Sample/PrepareChannels. A sample of accepted configurations
// is carried on through PrepareRun, a START of LJH2.2+LJH3 writing, one record per channel
// and STOP; the files are listed and their headers decoded.
//
// Oracle (outcome based, from the statement): whenever a configuration is accepted, names
// are pairwise distinct, error/feedback partners share a number, numbers of distinct
// (card,column,row) are distinct, the reported groups cover exactly the numbers in use (no
// number twice), row/column codes decode to the true geometry, one file per stream exists
// and its header carries the identity the accessors report. A configuration whose
// separations would make numbers collide therefore has to be rejected: if it is accepted
// the collision is observed.

import (
	"encoding/json"
	"fmt"
	"gonum.org/v1/gonum/mat"
	"os"
	"path/filepath"
	"reflect"
	"sort"
	"strings"
	"time"

	"github.com/spf13/viper"
	"github.com/usnistgov/dastard/packets"
)

type vLanDevSpec struct{ devnum, nrows, ncols int }

type vLanIdentCfg struct {
	devs              []vLanDevSpec
	firstRow          int
	sepCards, sepCols int
}

func (k vLanIdentCfg) String() string {
	return fmt.Sprintf("devices(devnum,rows,cols)=%v firstRow=%d chanSepCards=%d chanSepColumns=%d", k.devs, k.firstRow, k.sepCards, k.sepCols)
}

func vGenLanIdent(c *vCase) vLanIdentCfg {
	r := c.R
	var k vLanIdentCfg
	nd := vPick(r, 1, 1, 2, 2, 3, 4)
	perm := r.Perm(6)
	maxrows, maxspan := 0, 0
	for i := 0; i < nd; i++ {
		d := vLanDevSpec{devnum: perm[i], nrows: vPick(r, 1, 2, 3, 4, 5, 8, 16, 33), ncols: vPick(r, 1, 2, 2, 3, 4, 8)}
		if i > 0 && vChance(r, 0.6) {
			d.nrows = k.devs[0].nrows // equal row counts are the common case
		}
		k.devs = append(k.devs, d)
		if d.nrows > maxrows {
			maxrows = d.nrows
		}
	}
	k.firstRow = vPick(r, 1, 1, 0, -5, 7, 1000)
	k.sepCols = vPick(r, 0, 0, -1, -7, 1, maxrows-1, maxrows, maxrows, maxrows+1, maxrows+5, 32, 100)
	for _, d := range k.devs {
		colsep := d.nrows
		if k.sepCols > 0 {
			colsep = k.sepCols
		}
		if colsep*d.ncols > maxspan {
			maxspan = colsep * d.ncols
		}
	}
	k.sepCards = vPick(r, 0, 0, -1, -100, 1, maxspan-1, maxspan, maxspan, maxspan+1, 2*maxspan, 1000, 4096)
	return k
}

func vBuildLancero(k vLanIdentCfg) *LanceroSource {
	ls := new(LanceroSource)
	ls.name = "Lancero"
	ls.nsamp = 1
	ls.devices = make(map[int]*LanceroDevice)
	ls.channelsPerPixel = 2
	ls.firstRowChanNum = k.firstRow
	ls.chanSepCards = k.sepCards
	ls.chanSepColumns = k.sepCols
	for _, d := range k.devs {
		dev := &LanceroDevice{devnum: d.devnum, nrows: d.nrows, ncols: d.ncols, lsync: 40, clockMHz: 125}
		ls.devices[d.devnum] = dev
		ls.active = append(ls.active, dev)
		ls.nchan += d.nrows * d.ncols * 2
	}
	ls.ncards = len(k.devs)
	ls.sampleRate = 125e6 / float64(40*k.devs[0].nrows)
	ls.samplePeriod = time.Duration(roundint(1e9 / ls.sampleRate))
	return ls
}

type vStreamGeom struct{ card, col, row, rows, cols int }

// vCheckIdentityTables checks the tables of an accepted configuration. geom gives the true
// geometry per stream index (nil = not checked); perPixel = 2 for err/fb pairs.
func vCheckIdentityTables(c *vCase, ds *AnySource, names []string, groups []GroupIndex, geom []vStreamGeom, perPixel int, what string) bool {
	n := ds.nchan
	if len(names) != n || len(ds.chanNumbers) != n || len(ds.rowColCodes) != n {
		c.Violate("c19:table-length", "%s: %d streams but %d names, %d numbers, %d row/column codes", what, n, len(names), len(ds.chanNumbers), len(ds.rowColCodes))
		return false
	}
	seen := map[string]int{}
	for i, nm := range names {
		if j, ok := seen[nm]; ok {
			c.Violate("c19:duplicate-name", "%s: streams %d and %d share the name %q (so they would share every output file name)", what, j, i, nm)
			return false
		}
		seen[nm] = i
	}
	numOwner := map[int]int{}
	for i := 0; i < n; i += perPixel {
		num := ds.chanNumbers[i]
		if perPixel == 2 {
			if ds.chanNumbers[i+1] != num {
				c.Violate("c19:partners-differ", "%s: error stream %d has number %d, its feedback partner %d", what, i, num, ds.chanNumbers[i+1])
				return false
			}
			if names[i] != fmt.Sprintf("err%d", num) || names[i+1] != fmt.Sprintf("chan%d", num) {
				c.Violate("c19:name-number", "%s: streams %d/%d are named %q/%q but carry number %d", what, i, i+1, names[i], names[i+1], num)
				return false
			}
		} else if names[i] != fmt.Sprintf("chan%d", num) {
			c.Violate("c19:name-number", "%s: stream %d is named %q but carries number %d", what, i, names[i], num)
			return false
		}
		if j, ok := numOwner[num]; ok {
			c.Violate("c19:number-collision", "%s: channel number %d is used by stream %d and stream %d (different card/column/row)", what, num, j, i)
			return false
		}
		numOwner[num] = i
	}
	covered := map[int]bool{}
	for _, g := range groups {
		for q := g.Firstchan; q < g.Firstchan+g.Nchan; q++ {
			if covered[q] {
				c.Violate("c19:groups-overlap", "%s: reported channel groups %v cover number %d twice", what, groups, q)
				return false
			}
			covered[q] = true
		}
	}
	for num := range numOwner {
		if !covered[num] {
			c.Violate("c19:groups-miss", "%s: channel number %d is in use but no reported group %v covers it", what, num, groups)
			return false
		}
	}
	if len(covered) != len(numOwner) {
		c.Violate("c19:groups-extra", "%s: reported groups %v cover %d numbers, %d are in use", what, groups, len(covered), len(numOwner))
		return false
	}
	for i, g := range geom {
		rc := ds.rowColCodes[i]
		if rc.row() != g.row || rc.col() != g.col || rc.rows() != g.rows || rc.cols() != g.cols {
			c.Violate("c19:rowcol-code", "%s: stream %d is row %d column %d of %d x %d, its code decodes to row %d column %d of %d x %d", what, i,
				g.row, g.col, g.rows, g.cols, rc.row(), rc.col(), rc.rows(), rc.cols())
			return false
		}
	}
	c.Cov("tables_checked", 1)
	c.Cov("streams_checked", n)
	return true
}

func vIdentLancero(c *vCase) {
	k := vGenLanIdent(c)
	ls := vBuildLancero(k)
	err := ls.PrepareChannels()
	what := "Lancero " + k.String()
	if err != nil {
		c.Cov("lancero_rejected", 1)
		// a second attempt with the same object must not be accepted with colliding numbers either
		ls.chanSepCards, ls.chanSepColumns = k.sepCards, k.sepCols
		return
	}
	c.Cov("lancero_accepted", 1)
	if k.sepCards > 0 {
		c.Cov("lancero_accepted_with_card_separation", 1)
	}
	if k.sepCols > 0 {
		c.Cov("lancero_accepted_with_column_separation", 1)
	}
	if len(k.devs) > 1 {
		c.Cov("lancero_accepted_multi_card", 1)
		for _, d := range k.devs[1:] {
			if d.nrows != k.devs[0].nrows {
				c.Cov("lancero_accepted_mixed_rows", 1)
				break
			}
		}
	}
	var geom []vStreamGeom
	for _, d := range k.devs {
		for col := 0; col < d.ncols; col++ {
			for row := 0; row < d.nrows; row++ {
				g := vStreamGeom{d.devnum, col, row, d.nrows, d.ncols}
				geom = append(geom, g, g)
			}
		}
	}
	if !vCheckIdentityTables(c, &ls.AnySource, ls.ChannelNames(), ls.ChanGroups(), geom, 2, what) {
		return
	}
	// the same object configured again (e.g. after a stop) must give the same answer
	ls2 := vBuildLancero(k)
	ls2.subframeDivisions = ls.subframeDivisions
	if err := ls2.PrepareChannels(); err != nil {
		c.Violate("c19:unstable", "%s: accepted once, rejected on an identical second object: %v", what, err)
		return
	}
	if ls.nchan <= 64 && vChance(c.R, 0.5) {
		vIdentFiles(c, &ls.AnySource, what)
	}
}

// vIdentReuse: one LanceroSource object configured twice with different geometry (what
// Configure + Start do on the long-lived source object of the server).
func vIdentLanceroReuse(c *vCase) {
	k1 := vGenLanIdent(c)
	k2 := vGenLanIdent(c)
	ls := vBuildLancero(k1)
	ls.PrepareChannels()
	// second configuration on the same object, the way Configure + Sample do it
	ls.active = nil
	ls.nchan = 0
	ls.firstRowChanNum, ls.chanSepCards, ls.chanSepColumns = k2.firstRow, k2.sepCards, k2.sepCols
	for _, d := range k2.devs {
		dev := ls.devices[d.devnum]
		if dev == nil {
			dev = &LanceroDevice{devnum: d.devnum, lsync: 40, clockMHz: 125}
			ls.devices[d.devnum] = dev
		}
		dev.nrows, dev.ncols = d.nrows, d.ncols
		ls.active = append(ls.active, dev)
		ls.nchan += d.nrows * d.ncols * 2
	}
	what := "Lancero (object reused after " + k1.String() + ") " + k2.String()
	if err := ls.PrepareChannels(); err != nil {
		c.Cov("lancero_rejected", 1)
		return
	}
	c.Cov("lancero_accepted_on_reused_object", 1)
	var geom []vStreamGeom
	for _, d := range k2.devs {
		for col := 0; col < d.ncols; col++ {
			for row := 0; row < d.nrows; row++ {
				g := vStreamGeom{d.devnum, col, row, d.nrows, d.ncols}
				geom = append(geom, g, g)
			}
		}
	}
	vCheckIdentityTables(c, &ls.AnySource, ls.ChannelNames(), ls.ChanGroups(), geom, 2, what)
}

// vIdentFiles: PrepareRun, START LJH2.2+LJH3, one record per stream, STOP; list and decode.
func vIdentFiles(c *vCase, ds *AnySource, what string) {
	viper.Reset()
	npre, nsamp := 4, 12
	if err := ds.PrepareRun(npre, nsamp); err != nil {
		c.Inconclusive("setup", "PrepareRun: %v", err)
		return
	}
	f := &vFeed{ds: ds, nchan: ds.nchan, period: ds.samplePeriod, signed: make([]bool, ds.nchan)}
	f.t0 = time.Unix(vT0Unix, 0)
	defer f.close()
	all := make([]int, ds.nchan)
	for i := range all {
		all[i] = i
	}
	fts := FullTriggerState{ChannelIndices: all}
	fts.EdgeTrigger, fts.EdgeRising, fts.EdgeLevel = true, true, 500
	if err := ds.ChangeTriggerState(&fts); err != nil {
		c.Inconclusive("setup", "ChangeTriggerState: %v", err)
		return
	}
	// a one-component model on every stream, or on some of them only (not a run of streams from 0 on), so that OFF files are
	// written too
	withModel := make([]bool, ds.nchan)
	nmodels := 0
	sparse := vChance(c.R, 0.6)
	for ch := range withModel {
		withModel[ch] = !sparse || vChance(c.R, 0.4)
	}
	if sparse {
		withModel[0] = false
		withModel[ds.nchan-1] = true
		c.Cov("file_passes_with_models_on_some_streams", 1)
	}
	for ch := 0; ch < ds.nchan; ch++ {
		if !withModel[ch] {
			continue
		}
		nmodels++
		pd, bd := make([]float64, nsamp), make([]float64, nsamp)
		for i := range pd {
			pd[i], bd[i] = 1.0/float64(nsamp), 1
		}
		if err := ds.ConfigureProjectorsBases(ch, mat.NewDense(1, nsamp, pd), mat.NewDense(nsamp, 1, bd), "ident"); err != nil {
			c.Inconclusive("setup", "projectors rejected: %v", err)
			return
		}
	}
	base := filepath.Join(c.Dir, "ident")
	os.MkdirAll(base, 0o755)
	if err := ds.WriteControl(&WriteControlConfig{Request: "START", Path: base, WriteLJH22: true, WriteLJH3: true, WriteOFF: true}); err != nil {
		c.Violate("c19:start-rejected", "%s: START of LJH writing failed on an accepted configuration: %v", what, err)
		return
	}
	blen := 4 * nsamp
	f.truth = make([][]RawType, ds.nchan)
	for ch := range f.truth {
		seg := make([]RawType, blen)
		for i := range seg {
			seg[i] = 1000
			if i >= nsamp+ch%7 && i < 2*nsamp {
				seg[i] = 5000
			}
		}
		f.truth[ch] = seg
	}
	recs, err := f.push(blen, nil, 0)
	if err != nil {
		c.Inconclusive("setup", "ProcessSegments: %v", err)
		return
	}
	ws := ds.ComputeWritingState()
	dir := filepath.Dir(ws.FilenamePattern)
	ds.WriteControl(&WriteControlConfig{Request: "STOP"})
	if len(recs) != ds.nchan {
		c.Inconclusive("harness", "%d records from %d streams", len(recs), ds.nchan)
		return
	}
	ents, _ := os.ReadDir(dir)
	var ljh22, ljh3, offs []string
	for _, e := range ents {
		switch {
		case strings.HasSuffix(e.Name(), ".off"):
			offs = append(offs, e.Name())
		case strings.HasSuffix(e.Name(), ".ljh"):
			ljh22 = append(ljh22, e.Name())
		case strings.HasSuffix(e.Name(), ".ljh3"):
			ljh3 = append(ljh3, e.Name())
		}
	}
	if len(ljh22) != ds.nchan || len(ljh3) != ds.nchan || len(offs) != nmodels {
		c.Violate("c19:shared-file", "%s: %d streams each wrote one record, but the directory holds %d LJH2.2, %d LJH3 and %d OFF files: streams share output files (%d streams have a model)", what, ds.nchan, len(ljh22), len(ljh3), len(offs), nmodels)
		return
	}
	names := ds.ChannelNames()
	seenOff := map[int]bool{}
	for _, fn := range offs {
		b, _ := os.ReadFile(filepath.Join(dir, fn))
		pf, err := vParseOFF(b)
		if err != nil {
			c.Violate("c19:file-parse", "%s: %s: %v", what, fn, err)
			return
		}
		h := pf.hdr
		idx := h.ChannelIndex
		if idx < 0 || idx >= ds.nchan || seenOff[idx] || !withModel[idx] {
			c.Violate("c19:file-index", "%s: %s: header stream index %d is out of range, appears in two OFF files or is that of a stream without a model (streams with a model: %v)", what, fn, idx, withModel)
			return
		}
		seenOff[idx] = true
		rc := ds.rowColCodes[idx]
		if h.ChannelName != names[idx] || h.ChannelNumberMatchingName != ds.chanNumbers[idx] || h.ReadoutInfo.RowNum != rc.row() || h.ReadoutInfo.ColumnNum != rc.col() ||
			h.ReadoutInfo.NumberOfRows != rc.rows() || h.ReadoutInfo.NumberOfColumns != rc.cols() {
			c.Violate("c19:header-identity", "%s: %s: OFF header says name %q number %d row %d col %d of %dx%d; status says name %q number %d row %d col %d of %dx%d", what, fn,
				h.ChannelName, h.ChannelNumberMatchingName, h.ReadoutInfo.RowNum, h.ReadoutInfo.ColumnNum, h.ReadoutInfo.NumberOfRows, h.ReadoutInfo.NumberOfColumns,
				names[idx], ds.chanNumbers[idx], rc.row(), rc.col(), rc.rows(), rc.cols())
			return
		}
		if !strings.Contains(fn, "_"+names[idx]+".") {
			c.Violate("c19:file-name", "%s: OFF file %s belongs to stream %q", what, fn, names[idx])
			return
		}
		if len(pf.recs) != 1 {
			c.Violate("c19:shared-file", "%s: %s holds %d records, its stream wrote 1", what, fn, len(pf.recs))
			return
		}
		c.Cov("file_headers_checked", 1)
	}
	seenIdx := map[int]bool{}
	for _, fn := range ljh22 {
		b, _ := os.ReadFile(filepath.Join(dir, fn))
		pf, err := vParseLJH22(b)
		if err != nil {
			c.Violate("c19:file-parse", "%s: %s: %v", what, fn, err)
			return
		}
		idx, ok := pf.intKey("ChannelIndex (in dastard)")
		if !ok || idx < 0 || idx >= ds.nchan || seenIdx[idx] {
			c.Violate("c19:file-index", "%s: %s: header stream index %d (present %v) is out of range or appears in two files", what, fn, idx, ok)
			return
		}
		seenIdx[idx] = true
		num, _ := pf.intKey("Channel")
		rc := ds.rowColCodes[idx]
		row, _ := pf.intKey("Row number")
		col, _ := pf.intKey("Column number")
		rows, _ := pf.intKey("Number of rows")
		cols, _ := pf.intKey("Number of columns")
		if pf.hdr["Channel name"] != names[idx] || num != ds.chanNumbers[idx] || row != rc.row() || col != rc.col() || rows != rc.rows() || cols != rc.cols() {
			c.Violate("c19:header-identity", "%s: %s: header says name %q number %d row %d col %d of %dx%d; status says name %q number %d row %d col %d of %dx%d", what, fn,
				pf.hdr["Channel name"], num, row, col, rows, cols, names[idx], ds.chanNumbers[idx], rc.row(), rc.col(), rc.rows(), rc.cols())
			return
		}
		if !strings.Contains(fn, "_"+names[idx]+".") {
			c.Violate("c19:file-name", "%s: file %s belongs to stream %q", what, fn, names[idx])
			return
		}
		if len(pf.recs) != 1 {
			c.Violate("c19:shared-file", "%s: %s holds %d records, its stream wrote 1", what, fn, len(pf.recs))
			return
		}
		c.Cov("file_headers_checked", 1)
	}
	for _, fn := range ljh3 {
		b, _ := os.ReadFile(filepath.Join(dir, fn))
		pf, err := vParseLJH3(b)
		if err != nil || len(pf.recs) != 1 {
			c.Violate("c19:shared-file", "%s: %s: parse error %v or not exactly one record", what, fn, err)
			return
		}
		c.Cov("file_headers_checked", 1)
	}
	c.Cov("write_sessions", 1)
}

// ---------------------------------------------------------------- Abaco layouts

type vIdentProducer struct {
	groups [][2]int // first, nchan
	nper   int
}

func (p *vIdentProducer) start() error        { return nil }
func (p *vIdentProducer) stop() error         { return nil }
func (p *vIdentProducer) discardStale() error { return nil }
func (p *vIdentProducer) ReadAllPackets() ([]*packets.Packet, error) {
	return nil, nil
}
func (p *vIdentProducer) samplePackets(d time.Duration) ([]*packets.Packet, error) {
	var out []*packets.Packet
	for idx := 0; idx < p.nper; idx++ {
		for gi, g := range p.groups {
			pk := packets.NewPacket(10, uint32(gi), uint32(100+idx-1), g[0])
			pk.SetTimestamp(&packets.PacketTimestamp{T: uint64(1000000 + idx*4000), Rate: 1e8})
			d := make([]int16, 4*g[1])
			pk.NewData(d, []int16{int16(g[1])})
			out = append(out, pk)
		}
	}
	return out, nil
}

func vIdentAbaco(c *vCase) {
	r := c.R
	ng := vPick(r, 1, 2, 2, 3, 4, 5)
	var groups [][2]int
	next := vPick(r, 0, 0, 1, 16, 100)
	kind := r.Intn(5)
	for g := 0; g < ng; g++ {
		n := vPick(r, 1, 2, 4, 8, 16, 31)
		first := next
		if g > 0 {
			switch kind {
			case 0: // adjacent
			case 1: // spaced
				first += r.Intn(20)
			case 2: // overlap by exactly one channel with the previous group
				if vChance(r, 0.5) {
					first--
				}
			case 3: // overlap by several / nested
				if vChance(r, 0.5) {
					first -= 1 + r.Intn(groups[g-1][1])
				}
			case 4: // identical first channel, different size
				if vChance(r, 0.3) {
					first = groups[g-1][0]
					n = groups[g-1][1] + 1
				}
			}
		}
		groups = append(groups, [2]int{first, n})
		if first+n > next {
			next = first + n
		}
	}
	r.Shuffle(len(groups), func(i, j int) { groups[i], groups[j] = groups[j], groups[i] })
	nprod := 1 + r.Intn(2)
	as, err := NewAbacoSource()
	if err != nil {
		c.Inconclusive("setup", "%v", err)
		return
	}
	prods := make([]*vIdentProducer, nprod)
	for i := range prods {
		prods[i] = &vIdentProducer{nper: 3}
		as.producers = append(as.producers, prods[i])
	}
	for gi, g := range groups {
		prods[gi%nprod].groups = append(prods[gi%nprod].groups, g)
	}
	what := fmt.Sprintf("Abaco groups(first,nchan)=%v on %d producers", groups, nprod)
	used := map[int]int{}
	overlap := false
	for _, g := range groups {
		for q := g[0]; q < g[0]+g[1]; q++ {
			used[q]++
			if used[q] > 1 {
				overlap = true
			}
		}
	}
	if overlap {
		c.Cov("abaco_overlapping_layouts", 1)
	}
	if err := as.Sample(); err != nil {
		c.Cov("abaco_rejected", 1)
		return
	}
	if err := as.PrepareChannels(); err != nil {
		c.Cov("abaco_rejected", 1)
		return
	}
	c.Cov("abaco_accepted", 1)
	sorted := append([][2]int{}, groups...)
	sort.Slice(sorted, func(i, j int) bool { return sorted[i][0] < sorted[j][0] })
	var geom []vStreamGeom
	if !overlap {
		for col, g := range sorted {
			for row := 0; row < g[1]; row++ {
				geom = append(geom, vStreamGeom{0, col, row, g[1], len(sorted)})
			}
		}
	}
	if !vCheckIdentityTables(c, &as.AnySource, as.ChannelNames(), as.ChanGroups(), geom, 1, what) {
		return
	}
	if as.nchan <= 64 && vChance(r, 0.3) {
		as.sampleRate, as.samplePeriod = 1e5, 10*time.Microsecond
		vIdentFiles(c, &as.AnySource, what)
	}
}

func vIdentSimple(c *vCase) {
	r := c.R
	n := vPick(r, 1, 2, 3, 8, 17, 64)
	switch r.Intn(4) {
	case 0:
		ts := NewTriangleSource()
		if err := ts.Configure(&TriangleSourceConfig{Nchan: n, SampleRate: 10000, Min: 100, Max: 200}); err != nil {
			return
		}
		ts.Sample()
		ts.PrepareChannels()
		vCheckIdentityTables(c, &ts.AnySource, ts.ChannelNames(), ts.ChanGroups(), nil, 1, fmt.Sprintf("Triangle nchan=%d", n))
	case 1:
		sp := NewSimPulseSource()
		if err := sp.Configure(&SimPulseSourceConfig{Nchan: n, SampleRate: 10000, Pedestal: 1000, Amplitudes: []float64{5000}, Nsamp: 1000}); err != nil {
			return
		}
		sp.Sample()
		sp.PrepareChannels()
		vCheckIdentityTables(c, &sp.AnySource, sp.ChannelNames(), sp.ChanGroups(), nil, 1, fmt.Sprintf("SimPulse nchan=%d", n))
	case 2:
		rs := new(RoachSource)
		rs.name = "Roach"
		rs.nchan = n
		rs.PrepareChannels()
		var geom []vStreamGeom
		for i := 0; i < n; i++ {
			geom = append(geom, vStreamGeom{0, 0, i, n, 1})
		}
		vCheckIdentityTables(c, &rs.AnySource, rs.ChannelNames(), rs.ChanGroups(), geom, 1, fmt.Sprintf("Roach nchan=%d", n))
	case 3:
		ds := vNewAnySource(n, 10*time.Microsecond)
		ds.PrepareChannels()
		if vCheckIdentityTables(c, ds, ds.ChannelNames(), ds.ChanGroups(), nil, 1, fmt.Sprintf("AnySource nchan=%d", n)) && n <= 17 {
			vIdentFiles(c, ds, fmt.Sprintf("AnySource nchan=%d", n))
		}
	}
	c.Cov("simple_sources", 1)
}

// vIdentServer: what the server reports. Two or three Start/Stop cycles of the scripted Lancero card through an in-package
// SourceControl, the first-row number (and sometimes the geometry) changing in between: after each Start the channel groups in
// the server's STATUS (field and the message sent to clients) must cover exactly the channel numbers the source uses.
func vIdentServer(c *vCase) {
	r := c.R
	viper.Reset()
	sc, stop := vNewInPackageControl()
	defer close(stop)
	if home, err := os.UserHomeDir(); err == nil {
		os.MkdirAll(filepath.Join(home, ".dastard"), 0o755) // the program's main() makes this directory before anything else
	}
	nrows, ncols := 2+r.Intn(3), 1+r.Intn(2)
	first := 1
	for cyc := 0; cyc < 2+r.Intn(2); cyc++ {
		switch r.Intn(4) {
		case 0: // same numbering again
		case 1:
			nrows = 2 + r.Intn(3) // other geometry, possibly another stream count
			first = vPick(r, 1, 101, 33)
		default:
			first = vPick(r, 1, 2, 101, 33, 1000) // same stream count, other numbers
		}
		card := vEndlessCard(nrows, ncols, uint64(r.Int63()))
		ls := sc.lancero
		card.backlog = func() int { return len(ls.buffersChan) }
		ls.nsamp = 1
		dev := &LanceroDevice{devnum: 0, nrows: nrows, ncols: ncols, lsync: 2000, clockMHz: 125, card: card}
		ls.devices = map[int]*LanceroDevice{0: dev}
		ls.active = []*LanceroDevice{dev}
		ls.ncards, ls.clockMHz, ls.firstRowChanNum = 1, 125, first
		ls.configError = nil
		vClientReset(true)
		name := "LANCEROSOURCE"
		var okay bool
		var err error
		if !vWatched(c, "Start", 30*time.Second, func() { err = sc.Start(&name, &okay) }) {
			return
		}
		if err != nil {
			c.Inconclusive("setup", "Start of the scripted Lancero card (rows %d cols %d first %d) failed: %v", nrows, ncols, first, err)
			return
		}
		inUse := map[int]bool{}
		for _, n := range ls.chanNumbers {
			inUse[n] = true
		}
		cover := func(groups []GroupIndex) (map[int]bool, bool) {
			m := map[int]bool{}
			dup := false
			for _, g := range groups {
				for n := g.Firstchan; n < g.Firstchan+g.Nchan; n++ {
					dup = dup || m[n]
					m[n] = true
				}
			}
			return m, dup
		}
		same := func(a, b map[int]bool) bool {
			if len(a) != len(b) {
				return false
			}
			for k := range a {
				if !b[k] {
					return false
				}
			}
			return true
		}
		what := fmt.Sprintf("Start #%d of a Lancero source (rows %d, columns %d, first row number %d) through the server", cyc+1, nrows, ncols, first)
		if m, dup := cover(sc.status.ChanGroups); dup || !same(m, inUse) {
			c.Violate("c19:status-groups", "%s: the server's status reports channel groups %v, the streams use the numbers %v", what, sc.status.ChanGroups, ls.chanNumbers)
		}
		// the STATUS message clients receive
		var last *ServerStatus
		for i := 0; i < 3000 && last == nil; i++ {
			for _, u := range vClientSnapshot() {
				if u.tag == "STATUS" {
					if st, ok := u.state.(ServerStatus); ok && st.Running {
						st := st
						last = &st
					}
				}
			}
			if last == nil {
				time.Sleep(time.Millisecond)
			}
		}
		if last == nil {
			c.Violate("c19:status-missing", "%s: no STATUS message with Running=true reached the client channel", what)
		} else if m, dup := cover(last.ChanGroups); dup || !same(m, inUse) || last.Nchannels != len(ls.chanNumbers) {
			c.Violate("c19:status-groups", "%s: the STATUS message reports %d channels in groups %v, the streams use the numbers %v", what, last.Nchannels, last.ChanGroups, ls.chanNumbers)
		}
		// the report left on disk for other programs (~/.dastard/channels.json, rewritten at every Start)
		if home, err := os.UserHomeDir(); err == nil {
			b, err := os.ReadFile(filepath.Join(home, ".dastard", "channels.json"))
			var onDisk []GroupIndex
			if err != nil {
				c.Violate("c19:channels-file", "%s: the channel-group file cannot be read: %v", what, err)
			} else if err := json.Unmarshal(b, &onDisk); err != nil {
				c.Violate("c19:channels-file", "%s: the channel-group file %s is not the JSON list it should be (%v): %q", what, filepath.Join(home, ".dastard", "channels.json"), err, vTrim(string(b), 300))
			} else if !reflect.DeepEqual(onDisk, sc.status.ChanGroups) && !(len(onDisk) == 0 && len(sc.status.ChanGroups) == 0) {
				c.Violate("c19:channels-file", "%s: the channel-group file lists %v, the server's status says %v", what, onDisk, sc.status.ChanGroups)
			} else {
				c.Cov("channel_group_files_checked", 1)
			}
		}
		c.Cov("server_status_checks", 1)
		vClientReset(false)
		dummy := ""
		if !vWatched(c, "Stop", 30*time.Second, func() { sc.Stop(&dummy, &okay) }) {
			return
		}
		if c.Violated() {
			return
		}
	}
	c.Cov("server_sessions", 1)
}

// vIdentLanceroConfigure: the list of active cards goes through the real LanceroSource.Configure (with the cringe globals it
// reads taken from a private file): lists in any order, and lists that name a card twice. Whatever Configure, and then
// PrepareChannels, accept must have distinct stream identities.
func vIdentLanceroConfigure(c *vCase) {
	r := c.R
	ncards := 2 + r.Intn(2)
	rows := 2 + r.Intn(4)
	offByOne := c.Idx%80 == 53 && vChance(r, 0.35)
	if offByOne {
		rows = 51 + r.Intn(14) // a large array, and a card that delivers one row more or less than the configuration says
	}
	gpath := filepath.Join(c.Dir, "cringeGlobals.json")
	os.WriteFile(gpath, []byte(fmt.Sprintf(`{"SETT": 10, "seqln": %d, "lsync": 2000, "testpattern": 0, "propagationdelay": 1, "NSAMP": 1, "carddelay": 1, "XPT": 0}`, rows)), 0o644)
	old := cringeGlobalsPath
	cringeGlobalsPath = gpath
	defer func() { cringeGlobalsPath = old }()
	ls := new(LanceroSource)
	ls.name = "Lancero"
	ls.channelsPerPixel = 2
	ls.devices = make(map[int]*LanceroDevice)
	cols := make([]int, ncards)
	for d := 0; d < ncards; d++ {
		cols[d] = 1 + r.Intn(3)
		ls.devices[d] = &LanceroDevice{devnum: d, ncols: cols[d], lsync: 40, clockMHz: 125}
	}
	var list []int
	dup := vChance(r, 0.6)
	if dup {
		a, b := r.Intn(ncards), r.Intn(ncards)
		list = vPick(r, []int{a, a}, []int{a, b, b}, []int{b, a, b}, []int{a, a, b}, []int{ncards - 1, ncards - 1}, []int{0, ncards - 1, ncards - 1})
		c.Cov("configure_lists_naming_a_card_twice", 1)
	} else {
		list = r.Perm(ncards)[:1+r.Intn(ncards)]
	}
	seen := map[int]bool{}
	reallyDup := false
	for _, d := range list {
		reallyDup = reallyDup || seen[d]
		seen[d] = true
	}
	cfg := &LanceroSourceConfig{ActiveCards: list, FirstRow: vPick(r, 1, 1, 33), ChanSepCards: vPick(r, 100, 1000, 1000, 0), ChanSepColumns: vPick(r, 0, 10, 32)}
	what := fmt.Sprintf("Lancero Configure(ActiveCards %v of %d cards with %v columns x %d rows, first row %d, separation cards/columns %d/%d)", list, ncards, cols, rows, cfg.FirstRow, cfg.ChanSepCards, cfg.ChanSepColumns)
	if err := ls.Configure(cfg); err != nil {
		if !reallyDup && strings.Contains(err.Error(), "same device") {
			c.Violate("c19:configure-refused", "%s was refused for naming a device twice: %v", what, err)
		}
		c.Cov("configure_refused", 1)
		return
	}
	if !reallyDup && c.Idx%80 == 53 {
		// the cards are sampled by the real Sample (scripted cards, each delivering its own number of columns)
		cardRows := rows
		if offByOne {
			cardRows = rows + vPick(r, 1, -1)
		}
		for _, dev := range ls.active {
			dev.ncols = 0
			card := vEndlessCard(cardRows, cols[dev.devnum], uint64(r.Int63()))
			dev.card = card
		}
		err := ls.Sample()
		if offByOne {
			if err == nil {
				c.Violate("c19:row-mismatch-accepted", "%s: the cards deliver %d rows, the configuration says %d; sampling accepted that, so every stream's row/column code and the groups describe an array that does not exist", what, cardRows, rows)
			} else {
				c.Cov("configure_cases_with_row_count_off_by_one_refused", 1)
			}
			return
		}
		if err != nil {
			c.Inconclusive("setup", "%s: Sample failed on scripted cards: %v", what, err)
			return
		}
		want := 0
		for _, dev := range ls.active {
			want += rows * cols[dev.devnum] * 2
			if dev.ncols != cols[dev.devnum] {
				c.Violate("c19:sampled-geometry", "%s: card %d delivers %d columns, after sampling the source says %d", what, dev.devnum, cols[dev.devnum], dev.ncols)
				return
			}
		}
		if ls.nchan != want {
			c.Violate("c19:sampled-geometry", "%s: the cards deliver %d streams, after sampling the source has %d", what, want, ls.nchan)
			return
		}
		c.Cov("configure_cases_sampled_from_scripted_cards", 1)
	}
	// what Sample does with the cards Configure made active (the column count is a property of the card)
	ls.nchan = 0
	var geom []vStreamGeom
	for _, dev := range ls.active {
		dev.ncols = cols[dev.devnum]
		ls.nchan += dev.nrows * dev.ncols * 2
		for col := 0; col < dev.ncols; col++ {
			for row := 0; row < dev.nrows; row++ {
				g := vStreamGeom{dev.devnum, col, row, dev.nrows, dev.ncols}
				geom = append(geom, g, g)
			}
		}
	}
	ls.ncards = len(ls.active)
	ls.sampleRate = 125e6 / float64(40*rows)
	ls.samplePeriod = time.Duration(roundint(1e9 / ls.sampleRate))
	if err := ls.PrepareChannels(); err != nil {
		c.Cov("lancero_rejected", 1)
		return
	}
	c.Cov("configure_accepted", 1)
	vCheckIdentityTables(c, &ls.AnySource, ls.ChannelNames(), ls.ChanGroups(), geom, 2, what)
}

func vRunIdentity(c *vCase) {
	if c.Idx%80 == 52 || c.Idx%80 == 53 {
		vIdentLanceroConfigure(c)
		c.Describe("%d/%d", c.Seed, c.Idx)
		c.Nontrivial()
		return
	}
	if c.Idx%80 == 12 {
		vIdentServer(c)
		c.Describe("%d/%d", c.Seed, c.Idx)
		c.Nontrivial()
		return
	}
	switch c.Idx % 8 {
	case 0, 1, 2, 3:
		vIdentLancero(c)
	case 4:
		vIdentLanceroReuse(c)
	case 5, 6:
		vIdentAbaco(c)
	case 7:
		vIdentSimple(c)
	}
	c.Describe("%d/%d", c.Seed, c.Idx)
	c.Nontrivial()
}

func init() {
	vRegister("C19", &vProp{
		Cases: func(tier string) int {
			if tier == "thorough" {
				return 160000
			}
			return 8000
		},
		Run: vRunIdentity,
		Meta: vMeta{Level: "exploration",
			Rule:        "case = one source configuration: Lancero with 1-4 cards (arbitrary device numbers and order, rows 1-33, columns 1-8, equal or mixed row counts), first-row number, card/column separations drawn around the acceptance boundaries (negative, 0, one too small, exact, larger) through the real PrepareChannels, also on a re-used source object; Abaco group layouts (adjacent, spaced, overlapping by one or several channels, nested) through the real Sample+PrepareChannels with scripted packets; Triangle/SimPulse/Roach/AnySource defaults. For every accepted configuration the identity tables are checked (distinct names, partners share a number, no number collision, groups cover exactly the numbers in use, row/column codes = true geometry) and for a sample LJH2.2/LJH3/OFF files are written and listed/decoded (one file per stream and type, header identity = reported identity, file name carries the stream name). 1 of 80 cases is a server-level session: 2-3 Start/Stop cycles of a scripted Lancero card through an in-package SourceControl with the first-row number and/or geometry changing in between; after each Start the channel groups in the server's STATUS field and in the STATUS message sent to clients must cover exactly the numbers in use; non-trivial = every configuration; additions: the channel-group file ~/.dastard/channels.json is read after every Start of a server-level session and must be the JSON list of the status groups; two cases in 80 send active-card lists (any order; 60 % naming a card twice) through the real LanceroSource.Configure (cringe globals from a private file) and check the tables of whatever Configure and PrepareChannels accept",
			Assumptions: []string{"outcome-based: a colliding configuration counts as rejected only if PrepareChannels/Sample returns an error; acceptance of a collision-free configuration is not required", "device geometry is set directly (what sampling the card would determine)"},
			Guards: map[string]map[string]int{
				"quick": {"lancero_accepted": 1000, "lancero_rejected": 1000, "lancero_accepted_with_card_separation": 150, "lancero_accepted_with_column_separation": 150, "lancero_accepted_multi_card": 300,
					"lancero_accepted_mixed_rows": 50, "lancero_accepted_on_reused_object": 100, "abaco_accepted": 500, "abaco_rejected": 200, "write_sessions": 300, "file_headers_checked": 5000, "simple_sources": 500, "server_status_checks": 100},
				"thorough": {"lancero_accepted": 20000, "abaco_accepted": 10000, "write_sessions": 6000},
			}},
	})
}
