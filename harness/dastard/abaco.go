package PKGNAME

// C03 — Abaco ingest: exact demultiplexing, gap filling, continuous frame numbering.
//
// Drive: a scripted PacketProducer (the repository's own interface) is put in
// as.producers; the source goes through the real Start -> Sample -> PrepareChannels ->
// PrepareRun -> StartRun -> readerMainLoop -> getNextBlock -> CoreLoop. Blocks are tapped
// by a wrapper that embeds *AbacoSource and overrides only ProcessSegments. Packets are
// built with the public constructors, encoded with Bytes() and decoded with ReadPacket, so
// they are what the wire would deliver. Every sample value is a function of (channel,
// global frame), so a sample that is read identifies the packet it came from.
//
// Oracle (from the statement): per channel the output is, in sequence-number order, the
// samples of every delivered packet and frames-per-packet filler samples for every lost
// packet; all channels of all groups have equal block lengths; block frame numbers are
// contiguous; the sum of reported dropped frames equals the frames filled in.

import (
	"bytes"
	"encoding/binary"
	"encoding/hex"
	"fmt"
	"os"
	"sort"
	"strings"
	"sync"
	"sync/atomic"
	"time"

	"github.com/spf13/viper"
	"github.com/usnistgov/dastard/packets"
)

type vAbGroup struct {
	first, nchan int
	snBase       uint32 // sequence number of global packet 0 in this group
	producer     int
	lost         map[int]bool // global packet indices that never arrive
	sampled      int          // packets of this group seen while sampling (0 = nSample): its run continues right after them
}

type vAbScript struct {
	groups    []vAbGroup
	nprod     int
	fpp       int // frames per packet
	bits      int // 16 or 32
	nSample   int // packets per group delivered in the sampling phase (global indices 0..nSample-1)
	nScript   int // global packet indices nSample .. nSample+nScript-1 are scripted
	ticks     [][]int
	rescale   bool
	stampMode int  // 0: every packet has a timestamp, 1: every other one, 2: none
	unwrap    bool // phase unwrapping on (with rescaling); such scripts lose no packet
	uopts     AbacoUnwrapOptions
	lowbits   bool // 32-bit payloads carry non-zero low 16 bits (non-negative values only)
}

func (s *vAbScript) sampledOf(gi int) int {
	if n := s.groups[gi].sampled; n > 0 && n <= s.nSample {
		return n
	}
	return s.nSample
}

func vAbVal(ch int, frame int) uint16 {
	x := uint32(frame)*2654435761 + uint32(ch)*40503 + 12345
	return uint16(x >> 13)
}

// vAbRun is the shared state of all scripted producers of one run.
type vAbRun struct {
	s  *vAbScript
	mu sync.Mutex
	// per group
	nextIdx   []int   // next global packet index not yet considered for delivery
	delivered [][]int // global packet indices handed to the reader, in order
	calls     []int   // ReadAllPackets calls per producer
	starts    []int
	stops     []int
	equalized bool
	buildErr  error
	backlog   func() int // entries waiting in the reader's buffer (flow control)
	stopDelay time.Duration
	drain     bool // no more packets: every read returns empty (quiescence)
	drained   bool // the run ended with at least 6 empty ticks
	extEvery  int  // producer 0 adds an external-trigger packet to every extEvery-th read (0 = never)
	extSent   int  // external-trigger entries handed to the reader
	extSeq    int
}

// header of a real external-trigger ("timer") packet: version 1, 96-byte header, TLVs counter / two tags /
// timestamp with unit / format ">IIQ" / label "value,active,t" / shape; payload = (u32 value, u32 active, u64 t) big-endian
const vAbExtHeaderHex = "01600200810b00ff0608002000024883" + "0901000000000000" + "1201000100000000" + "1201000000000000" +
	"130240f70004000100000073" + "30810384" + "21013e4949512020" + "290276616c75652c6163746976652c74" + "2201000000010000" + "0001000000000000"

var vAbExtSentTotal int64 // external-trigger entries handed to a reader in this process

// vAbExtTrigPacket builds an external-trigger packet carrying the given firmware timestamps.
func vAbExtTrigPacket(seq int, times []uint64) (*packets.Packet, error) {
	h, err := hex.DecodeString(vAbExtHeaderHex)
	if err != nil || len(h) != 96 {
		return nil, fmt.Errorf("bad embedded header (%d bytes): %v", len(h), err)
	}
	binary.BigEndian.PutUint16(h[2:], uint16(16*len(times)))
	binary.BigEndian.PutUint32(h[12:], uint32(seq))
	b := make([]byte, 16*len(times))
	for i, t := range times {
		binary.BigEndian.PutUint32(b[16*i:], 0x80000001)
		binary.BigEndian.PutUint32(b[16*i+4:], 2)
		binary.BigEndian.PutUint64(b[16*i+8:], t)
	}
	return packets.ReadPacket(bytes.NewReader(append(h, b...)))
}

type vAbProducer struct {
	run *vAbRun
	id  int
}

func (run *vAbRun) makePacket(gi int, idx int) *packets.Packet {
	s := run.s
	g := s.groups[gi]
	sn := g.snBase + uint32(idx)
	p := packets.NewPacket(10, uint32(100+gi), sn-1, g.first)
	// timestamps: 1000 counts per frame at 1e8 counts/s -> 1e5 frames/s, same for all groups
	ts := &packets.PacketTimestamp{T: uint64(1000000 + idx*s.fpp*1000), Rate: 1e8}
	stamp := true
	switch s.stampMode {
	case 1: // sparse: while sampling, every packet but a group's last sampled one (when it has at least three); in the run every other packet
		if idx < s.sampledOf(gi) {
			stamp = !(s.sampledOf(gi) >= 3 && idx == s.sampledOf(gi)-1)
		} else {
			stamp = idx%2 == 0
		}
	case 2: // none (single-group scripts only)
		stamp = false
	}
	if stamp {
		p.SetTimestamp(ts)
	}
	n := s.fpp * g.nchan
	var err error
	if s.bits == 16 {
		d := make([]int16, n)
		for f := 0; f < s.fpp; f++ {
			for c := 0; c < g.nchan; c++ {
				d[f*g.nchan+c] = int16(vAbVal(g.first+c, idx*s.fpp+f))
			}
		}
		err = p.NewData(d, []int16{int16(g.nchan)})
	} else {
		d := make([]int32, n)
		for f := 0; f < s.fpp; f++ {
			for c := 0; c < g.nchan; c++ {
				v := int32(int16(vAbVal(g.first+c, idx*s.fpp+f)))
				w := v << 16
				if s.lowbits && v >= 0 {
					w |= int32(vAbVal(g.first+c+77, idx*s.fpp+f))
				}
				d[f*g.nchan+c] = w
			}
		}
		err = p.NewData(d, []int16{int16(g.nchan)})
	}
	if err != nil {
		run.buildErr = err
		return nil
	}
	q, err := packets.ReadPacket(bytes.NewReader(p.Bytes()))
	if err != nil {
		run.buildErr = err
		return nil
	}
	return q
}

func (p *vAbProducer) groupsOf() []int {
	var out []int
	for gi, g := range p.run.s.groups {
		if g.producer == p.id {
			out = append(out, gi)
		}
	}
	return out
}

func (p *vAbProducer) start() error {
	p.run.mu.Lock()
	p.run.starts[p.id]++
	p.run.mu.Unlock()
	return nil
}

func (p *vAbProducer) stop() error {
	time.Sleep(p.run.stopDelay) // a device that takes a while to close
	p.run.mu.Lock()
	p.run.stops[p.id]++
	p.run.mu.Unlock()
	return nil
}

func (p *vAbProducer) discardStale() error { return nil }

func (p *vAbProducer) samplePackets(d time.Duration) ([]*packets.Packet, error) {
	run := p.run
	run.mu.Lock()
	defer run.mu.Unlock()
	var out []*packets.Packet
	for idx := 0; idx < run.s.nSample; idx++ {
		for _, gi := range p.groupsOf() {
			if idx >= run.s.sampledOf(gi) {
				continue
			}
			if q := run.makePacket(gi, idx); q != nil {
				out = append(out, q)
			}
		}
	}
	return out, nil
}

func (p *vAbProducer) ReadAllPackets() (out []*packets.Packet, err error) {
	run := p.run
	vFlowWait(run.backlog)
	run.mu.Lock()
	defer run.mu.Unlock()
	t := run.calls[p.id]
	run.calls[p.id]++
	if run.drain {
		return nil, nil
	}
	s := run.s
	deliver := func(gi, idx int) {
		if q := run.makePacket(gi, idx); q != nil {
			out = append(out, q)
			run.delivered[gi] = append(run.delivered[gi], idx)
		}
	}
	var extLast *packets.Packet
	defer func() {
		if extLast != nil {
			out = append(out, extLast)
		}
	}()
	if run.extEvery > 0 && p.id == 0 && t%run.extEvery == 0 {
		times := make([]uint64, 1+t%3)
		for i := range times {
			times[i] = uint64(1000000 + (run.nextIdx[0]*s.fpp+i)*1000)
		}
		run.extSeq++
		if q, err := vAbExtTrigPacket(run.extSeq, times); err == nil && q.IsExternalTrigger() {
			if run.extSeq%2 == 0 {
				out = append(out, q) // first in this read's batch
			} else {
				extLast = q // last in the batch: the data packets of the tick are handled before it
			}
			run.extSent += len(times)
			atomic.AddInt64(&vAbExtSentTotal, int64(len(times)))
		} else if run.buildErr == nil {
			run.buildErr = fmt.Errorf("external-trigger packet: %v", err)
		}
	}
	end := s.nSample + s.nScript
	if t < len(s.ticks) {
		for _, gi := range p.groupsOf() {
			want := s.ticks[t][gi]
			for want > 0 && run.nextIdx[gi] < end {
				idx := run.nextIdx[gi]
				run.nextIdx[gi]++
				if s.groups[gi].lost[idx] {
					continue
				}
				deliver(gi, idx)
				want--
			}
		}
		return out, nil
	}
	// trailer: first let every group catch up to the end of the script, then one packet per tick, no loss
	for _, gi := range p.groupsOf() {
		for run.nextIdx[gi] < end {
			idx := run.nextIdx[gi]
			run.nextIdx[gi]++
			if !s.groups[gi].lost[idx] {
				deliver(gi, idx)
			}
		}
		idx := run.nextIdx[gi]
		run.nextIdx[gi]++
		deliver(gi, idx)
	}
	return out, nil
}

// vAbTap embeds the real source and overrides only ProcessSegments.
type vAbTap struct {
	*AbacoSource
	mu     sync.Mutex
	blocks []vTapBlock
	frames int
	slowAt int // > 0: block processing pauses 25 ms at this block count (and at three times it)
}

type vTapBlock struct {
	first   []FrameIndex
	lens    []int
	nSamp   int
	dropped []int
	data    [][]RawType
	ext     []int64
	times   []time.Time
}

func vCopyBlock(b *dataBlock) vTapBlock {
	tb := vTapBlock{nSamp: b.nSamp}
	for _, seg := range b.segments {
		tb.first = append(tb.first, seg.firstFrameIndex)
		tb.lens = append(tb.lens, len(seg.rawData))
		tb.dropped = append(tb.dropped, seg.droppedFrames)
		tb.times = append(tb.times, seg.firstTime)
		d := make([]RawType, len(seg.rawData))
		copy(d, seg.rawData)
		tb.data = append(tb.data, d)
	}
	tb.ext = append(tb.ext, b.externalTriggerRowcounts...)
	return tb
}

func (t *vAbTap) ProcessSegments(b *dataBlock) error {
	if t.slowAt > 0 {
		t.mu.Lock()
		n := len(t.blocks)
		t.mu.Unlock()
		if n == t.slowAt || n == 3*t.slowAt {
			time.Sleep(25 * time.Millisecond) // a slow consumer: the reader gets many ticks ahead; blocks already handed over must stay what they were
		}
	}
	tb := vCopyBlock(b)
	t.mu.Lock()
	t.blocks = append(t.blocks, tb)
	if len(tb.lens) > 0 {
		t.frames += tb.lens[0]
	}
	t.mu.Unlock()
	return t.AbacoSource.ProcessSegments(b)
}

func (t *vAbTap) framesSeen() int {
	t.mu.Lock()
	defer t.mu.Unlock()
	return t.frames
}

func vGenAbScript(c *vCase) *vAbScript {
	r := c.R
	s := &vAbScript{}
	ng := vPick(r, 1, 2, 2, 2, 3, 3, 4)
	s.nprod = 1 + r.Intn(ng)
	if s.nprod > 3 {
		s.nprod = 3
	}
	s.fpp = vPick(r, 1, 2, 3, 4, 8, 16, 32)
	s.bits = vPick(r, 16, 16, 32)
	s.lowbits = vChance(r, 0.5)
	s.rescale = vChance(r, 0.15)
	s.nSample = vRange(r, 2, 12)
	s.nScript = vRange(r, 30, 140)
	outage := c.Idx%24 == 7
	if outage {
		// a long outage: one group loses more than a thousand packets in a row while the others go on
		s.nScript = vRange(r, 1300, 1700)
		s.fpp = vPick(r, 1, 2)
		if ng > 2 {
			ng = 2
		}
		if s.nprod > ng {
			s.nprod = ng
		}
	}
	next := r.Intn(3) * 8
	for g := 0; g < ng; g++ {
		nch := vRange(r, 1, 8)
		grp := vAbGroup{first: next, nchan: nch, snBase: uint32(vPick(r, 0, 1, 1000, 70000, 1<<20) + r.Intn(50)), lost: map[int]bool{}}
		grp.producer = g % s.nprod
		next += nch + vPick(r, 0, 0, 3, 16)
		s.groups = append(s.groups, grp)
	}
	r.Shuffle(len(s.groups), func(i, j int) { s.groups[i], s.groups[j] = s.groups[j], s.groups[i] })
	if ng > 1 && s.nSample >= 3 && vChance(r, 0.4) {
		// the sampling phase caught fewer packets of some groups: their runs start earlier and must be trimmed
		for gi := 1; gi < ng; gi++ {
			if vChance(r, 0.6) {
				s.groups[gi].sampled = s.nSample - 1 - r.Intn(2)
				if s.groups[gi].sampled < 2 {
					s.groups[gi].sampled = 2 // the sample rate needs two time-stamped packets per group
				}
			}
		}
	}
	end := s.nSample + s.nScript
	for gi := range s.groups {
		g := &s.groups[gi]
		if outage && gi == 0 {
			a := s.nSample + r.Intn(30)
			for k := 0; k < vRange(r, 1030, 1250) && a+k < end-1; k++ {
				g.lost[a+k] = true
			}
			c.Cov("scripts_with_an_outage_of_over_1024_packets", 1)
			continue
		}
		switch r.Intn(6) {
		case 0: // none
		case 1: // isolated
			for i := s.nSample; i < end; i++ {
				if vChance(r, 0.06) {
					g.lost[i] = true
				}
			}
		case 2: // bursts
			for i := s.nSample; i < end; i++ {
				if vChance(r, 0.04) {
					for k := 0; k < 1+r.Intn(5) && i+k < end; k++ {
						g.lost[i+k] = true
					}
				}
			}
		case 3: // one long run
			a := vRange(r, s.nSample, end-1)
			for k := 0; k < vRange(r, 8, 30) && a+k < end-1; k++ {
				g.lost[a+k] = true
			}
		case 4: // first packets of the run
			for k := 0; k < 1+r.Intn(3); k++ {
				g.lost[s.nSample+k] = true
			}
		case 5: // dense
			for i := s.nSample; i < end; i++ {
				if vChance(r, 0.25) {
					g.lost[i] = true
				}
			}
		}
		delete(g.lost, end-1) // the last scripted packet arrives (losses after the last packet are unknowable)
	}
	// tick script
	nticks := vRange(r, 20, 90)
	lagLeft := make([]int, ng)
	style := r.Intn(4)
	for t := 0; t < nticks; t++ {
		row := make([]int, ng)
		if vChance(r, 0.08) {
			s.ticks = append(s.ticks, row) // empty tick
			continue
		}
		for gi := range row {
			if lagLeft[gi] > 0 {
				lagLeft[gi]--
				continue
			}
			if ng > 1 && vChance(r, []float64{0.05, 0.15, 0.3, 0.1}[style]) {
				lagLeft[gi] = r.Intn(5)
				continue
			}
			switch style {
			case 0:
				row[gi] = 1 + r.Intn(3)
			case 1:
				row[gi] = r.Intn(4)
			case 2:
				row[gi] = vPick(r, 1, 1, 2, 5, 9)
			case 3:
				row[gi] = 1
			}
		}
		s.ticks = append(s.ticks, row)
	}
	if c.Idx%5 == 2 {
		// timestamps on every other packet only; on none at all only with a single group (the groups' sequence numbers are
		// related to each other through the timestamps, so several unstamped groups cannot be aligned by anyone)
		s.stampMode = 1
		if len(s.groups) == 1 {
			s.stampMode = 1 + c.Idx/5%2
		}
	}
	if c.Idx%6 == 4 || vAbForceUnwrap {
		// phase unwrapping through the device path (C12's callers): rescaling and unwrapping on, no packet lost (a filler's value
		// is not defined, and the unwrapper's state would depend on it)
		s.unwrap, s.rescale = true, true
		s.uopts = AbacoUnwrapOptions{RescaleRaw: true, Unwrap: true, Bias: vChance(r, 0.5), PulseSign: vPick(r, 1, -1), ResetAfter: vPick(r, 20, 200, 20000)}
		if vChance(r, 0.5) {
			g := s.groups[r.Intn(len(s.groups))]
			s.uopts.InvertChan = []int{g.first + r.Intn(g.nchan)}
		}
		for gi := range s.groups {
			s.groups[gi].lost = map[int]bool{}
		}
	}
	if !s.unwrap && (c.Idx%3 == 1 || vAbForceInvert) {
		// inverted channels without unwrapping, with or without rescaling: inversion is applied to the raw value before anything else
		g := s.groups[r.Intn(len(s.groups))]
		s.uopts.InvertChan = []int{g.first + r.Intn(g.nchan)}
		if vChance(r, 0.4) {
			g2 := s.groups[r.Intn(len(s.groups))]
			s.uopts.InvertChan = append(s.uopts.InvertChan, g2.first+r.Intn(g2.nchan))
		}
	}
	return s
}

// vAbForceInvert: C12's second device-path family (inversion without unwrapping, with or without rescaling).
var vAbForceInvert bool

func (s *vAbScript) String() string {
	var gs []string
	for _, g := range s.groups {
		var lost []int
		for k := range g.lost {
			lost = append(lost, k)
		}
		sort.Ints(lost)
		gs = append(gs, fmt.Sprintf("{first=%d n=%d sn0=%d prod=%d sampled=%d lost=%v}", g.first, g.nchan, g.snBase, g.producer, g.sampled, lost))
	}
	return fmt.Sprintf("fpp=%d bits=%d low=%v rescale=%v inverted=%v nSample=%d nScript=%d groups=%s ticks=%v", s.fpp, s.bits, s.lowbits, s.rescale, s.uopts.InvertChan,
		s.nSample, s.nScript, strings.Join(gs, ""), s.ticks)
}

// model statistics: how often a group kept packets queued across a tick and then had a loss
func (s *vAbScript) stats(c *vCase) {
	ng := len(s.groups)
	q := make([]int, ng)
	next := make([]int, ng)
	end := s.nSample + s.nScript
	for gi := range next {
		next[gi] = s.sampledOf(gi)
	}
	for _, row := range s.ticks {
		leftover := make([]bool, ng)
		for gi := range q {
			leftover[gi] = q[gi] > 0
		}
		anyEmpty := false
		for gi, want := range row {
			gap := false
			first := true
			for want > 0 && next[gi] < end {
				idx := next[gi]
				next[gi]++
				if s.groups[gi].lost[idx] {
					gap = true
					q[gi]++ // filler
					continue
				}
				q[gi]++
				want--
				if gap {
					c.Cov("loss_events", 1)
					if leftover[gi] {
						c.Cov("loss_after_leftover", 1)
					}
					if first {
						c.Cov("loss_at_tick_edge", 1)
					}
					gap = false
				}
				first = false
			}
			if gap { // trailing lost packets not yet detectable: they are not queued yet
				for next[gi] > 0 && s.groups[gi].lost[next[gi]-1] {
					next[gi]--
					q[gi]--
				}
			}
		}
		m := 1 << 30
		for gi := range q {
			if q[gi] == 0 {
				anyEmpty = true
			}
			if q[gi] < m {
				m = q[gi]
			}
		}
		if anyEmpty {
			c.Cov("ticks_bailed_out", 1)
			continue
		}
		for gi := range q {
			q[gi] -= m
			if q[gi] > 0 {
				c.Cov("group_kept_packets_across_tick", 1)
			}
		}
		if ng > 1 {
			c.Cov("multi_group_blocks_expected", 1)
		}
	}
}

// vAbForceUnwrap makes every generated script an unwrapping one (used by C12's device-path cases).
var vAbForceUnwrap bool

func vRunAbaco(c *vCase) {
	if c.Idx%16 == 11 && !vAbForceUnwrap && !vAbForceInvert {
		vRunAbacoRingDevice(c) // the shared-memory device instead of scripted producers
		return
	}
	if c.Idx%16 == 3 && !vAbForceUnwrap && !vAbForceInvert {
		vRunAbacoUDPDevice(c) // the UDP device over a loopback socket
		return
	}
	s := vGenAbScript(c)
	c.Describe("%s", s.String())
	s.stats(c)
	reps := 3
	if c.Tier == "thorough" {
		reps = 6
	}
	if os.Getenv("VERIF_ONLY") != "" {
		reps = 8
	}
	for rep := 0; rep < reps && !c.Violated(); rep++ {
		vRunAbacoOnce(c, s, rep)
	}
	c.Nontrivial()
}

func vRunAbacoOnce(c *vCase, s *vAbScript, rep int) {
	viper.Reset()
	period := time.Millisecond
	if c.Tier == "thorough" && c.Idx%40 == 0 && rep == 0 {
		period = 0 // the real 50 ms
	}
	verifInstall(&verifHandlers{Duration: func(name string, d time.Duration) time.Duration {
		switch name {
		case "abaco.readPeriod":
			if period > 0 {
				return period
			}
		case "abaco.panicTime":
			return 120 * time.Second
		}
		return d
	}})
	defer verifInstall(nil)

	as, err := NewAbacoSource()
	if err != nil {
		c.Inconclusive("setup", "NewAbacoSource: %v", err)
		return
	}
	as.unwrapOpts = AbacoUnwrapOptions{RescaleRaw: s.rescale, InvertChan: s.uopts.InvertChan}
	if s.unwrap {
		as.unwrapOpts = s.uopts
	}
	run := &vAbRun{s: s, nextIdx: make([]int, len(s.groups)), delivered: make([][]int, len(s.groups)),
		calls: make([]int, s.nprod), starts: make([]int, s.nprod), stops: make([]int, s.nprod)}
	for gi := range run.nextIdx {
		run.nextIdx[gi] = s.sampledOf(gi)
	}
	run.backlog = func() int { return len(as.buffersChan) }
	if c.Idx%4 == 1 {
		run.extEvery = 2 + c.R.Intn(4) // external-trigger packets mixed into the stream: they carry no samples and must not disturb it
	}
	as.producers = nil
	for p := 0; p < s.nprod; p++ {
		as.producers = append(as.producers, &vAbProducer{run: run, id: p})
	}
	tap := &vAbTap{AbacoSource: as}
	if c.Idx%3 == 0 {
		tap.slowAt = 2 + c.R.Intn(6)
		c.Cov("runs_with_slow_consumer", 1)
	}
	queued := make(chan func())
	if err := Start(tap, queued, 4, 16); err != nil {
		c.Violate("c03:start-failed", "Start on a well-formed scripted stream failed: %v\n%s", err, s)
		return
	}
	// logical clock = ReadAllPackets calls of producer 0; wait until the output covers the script
	end := s.nSample + s.nScript
	wantFrames := (end - s.nSample) * s.fpp
	deadlineCalls := len(s.ticks) + 400
	stalled := false
	t0 := time.Now()
	for tap.framesSeen() < wantFrames {
		time.Sleep(time.Millisecond)
		run.mu.Lock()
		calls := run.calls[0]
		run.mu.Unlock()
		if calls > deadlineCalls {
			stalled = true
			break
		}
		if as.GetState() != Active {
			break
		}
		if time.Since(t0) > 100*time.Second {
			c.Inconclusive("slow:c03", "reader made only %d calls in 100 s", calls)
			break
		}
	}
	if !stalled && as.GetState() == Active {
		// quiescence: the packets stop; after six empty read ticks everything that is complete in all groups must be out
		run.mu.Lock()
		run.drain = true
		c0 := run.calls[0]
		run.mu.Unlock()
		for i := 0; i < 5000; i++ {
			time.Sleep(time.Millisecond)
			run.mu.Lock()
			n := run.calls[0] - c0
			run.mu.Unlock()
			if n >= 6 {
				run.drained = true
				break
			}
		}
	}
	stoppedEarly := as.GetState() != Active
	ok := vWatched(c, "AbacoSource.Stop", 20*time.Second, func() { as.Stop() })
	if !ok {
		return
	}
	if run.buildErr != nil {
		c.Inconclusive("setup", "packet construction failed: %v", run.buildErr)
		return
	}
	if stoppedEarly {
		c.Violate("c03:source-ended", "the source ended by itself while well-formed packets kept arriving\n%s", s)
		return
	}
	if run.extEvery > 0 {
		c.Cov("cases_with_external_trigger_packets", 1)
		c.Cov("external_trigger_entries_sent", run.extSent)
		atomic.StoreInt64(&vAbExtSentTotal, 0)
	}
	vCheckAbaco(c, s, run, tap, stalled, wantFrames)
}

func vCheckAbaco(c *vCase, s *vAbScript, run *vAbRun, tap *vAbTap, stalled bool, wantFrames int) {
	tap.mu.Lock()
	blocks := tap.blocks
	tap.mu.Unlock()
	run.mu.Lock()
	defer run.mu.Unlock()
	// channel order: groups sorted by first channel
	order := make([]int, len(s.groups))
	for i := range order {
		order[i] = i
	}
	sort.Slice(order, func(a, b int) bool { return s.groups[order[a]].first < s.groups[order[b]].first })
	type chinfo struct{ gi, ch int }
	var chans []chinfo
	for _, gi := range order {
		for k := 0; k < s.groups[gi].nchan; k++ {
			chans = append(chans, chinfo{gi, s.groups[gi].first + k})
		}
	}
	nch := len(chans)
	c.Cov("runs", 1)
	c.Cov("blocks", len(blocks))
	// structural checks per block
	total := 0
	reported := 0
	var nextFirst FrameIndex
	for bi, b := range blocks {
		if len(b.lens) != nch {
			c.Violate("c03:nchan", "block %d has %d segments, expected %d channels\n%s", bi, len(b.lens), nch, s)
			return
		}
		for ch := 1; ch < nch; ch++ {
			if b.lens[ch] != b.lens[0] {
				c.Violate("c03:unequal-lengths", "block %d: channel %d has %d samples, channel 0 has %d\n%s", bi, ch, b.lens[ch], b.lens[0], s)
				return
			}
			if b.first[ch] != b.first[0] {
				c.Violate("c03:frame-index-differs", "block %d: channel %d first frame %d, channel 0 %d\n%s", bi, ch, b.first[ch], b.first[0], s)
				return
			}
			if b.dropped[ch] != b.dropped[0] {
				c.Violate("c03:dropped-differs", "block %d: channel %d reports %d dropped, channel 0 %d", bi, ch, b.dropped[ch], b.dropped[0])
				return
			}
		}
		if b.nSamp != b.lens[0] {
			c.Violate("c03:nsamp", "block %d: nSamp=%d but segments hold %d samples\n%s", bi, b.nSamp, b.lens[0], s)
			return
		}
		if bi > 0 && b.first[0] != nextFirst {
			c.Violate("c03:frames-not-contiguous", "block %d starts at frame %d, previous block ended at %d\n%s", bi, b.first[0], nextFirst, s)
			return
		}
		nextFirst = b.first[0] + FrameIndex(b.lens[0])
		total += b.lens[0]
		reported += b.dropped[0]
		if len(s.groups) > 1 {
			c.Cov("multi_group_blocks", 1)
		}
	}
	if stalled || total < wantFrames {
		c.Violate("c03:stalled", "after the script and 400 further ticks in which every group delivered a packet, only %d of %d frames had been emitted (blocks=%d)\n%s",
			total, wantFrames, len(blocks), s)
		return
	}
	// content
	delivered := make([]map[int]bool, len(s.groups))
	lastDelivered := make([]int, len(s.groups))
	for gi := range s.groups {
		delivered[gi] = map[int]bool{}
		for _, idx := range run.delivered[gi] {
			delivered[gi][idx] = true
			lastDelivered[gi] = idx
		}
	}
	N0 := s.nSample
	if run.drained {
		// per-channel sample count = frames spanned by the first through the last packet that arrived (in the group that is least far)
		expect := -1
		for gi := range s.groups {
			if e := (lastDelivered[gi] + 1 - N0) * s.fpp; expect < 0 || e < expect {
				expect = e
			}
		}
		if total < expect {
			c.Violate("c03:frames-withheld", "the packets stopped and six empty read ticks went by, but only %d frames were emitted; every group had delivered packets up to frame %d (%d frames are being held back)\n%s",
				total, expect, expect-total, s)
			return
		}
		c.Cov("drained_runs", 1)
	}
	fillerOut := 0
	inverted := map[int]bool{}
	for _, ic := range s.uopts.InvertChan {
		inverted[ic] = true
	}
	if !s.unwrap && len(inverted) > 0 {
		c.Cov("runs_with_inverted_channels_without_unwrapping", 1)
	}
	for ci, ch := range chans {
		pos := 0
		var unwrapped []RawType
		if s.unwrap {
			// the channel's whole emitted stream through one reference unwrapper configured as the group's
			raw := make([]RawType, total)
			for k := range raw {
				raw[k] = RawType(vAbVal(ch.ch, N0*s.fpp+k))
			}
			inv := false
			for _, ic := range s.uopts.InvertChan {
				inv = inv || ic == ch.ch
			}
			ref := NewPhaseUnwrapper(abacoFractionBits, abacoBitsToDrop, true, s.uopts.calcBiasLevel(), s.uopts.ResetAfter, s.uopts.PulseSign, inv)
			ref.UnwrapInPlace(&raw)
			unwrapped = raw
		}
		for bi, b := range blocks {
			for i, v := range b.data[ci] {
				frame := N0*s.fpp + pos
				idx := frame / s.fpp
				pos++
				if idx > lastDelivered[ch.gi] {
					c.Violate("c03:beyond-delivered", "channel %d (group %d): output sample %d belongs to packet %d, but the last packet delivered is %d\n%s",
						ch.ch, ch.gi, pos-1, idx, lastDelivered[ch.gi], s)
					return
				}
				if !delivered[ch.gi][idx] {
					if ch.ch == s.groups[ch.gi].first {
						fillerOut++
					}
					continue // filler: value unconstrained
				}
				want := vAbVal(ch.ch, frame)
				if inverted[ch.ch] {
					want ^= 0xffff
				}
				if s.rescale {
					want >>= 4
				}
				if s.unwrap {
					if pos-1 < len(unwrapped) && v != unwrapped[pos-1] {
						c.Violate("c12:device-path-abaco", "channel %d (group first=%d, %d channels): block %d sample %d (stream position %d) is %d; one unwrapper run over the channel's whole stream (options %+v) gives %d\n%s",
							ch.ch, s.groups[ch.gi].first, s.groups[ch.gi].nchan, bi, i, pos-1, v, s.uopts, unwrapped[pos-1], s)
						return
					}
					c.Cov("samples_checked_unwrapped", 1)
					continue
				}
				if uint16(v) != want {
					// what does the observed value correspond to?
					hint := ""
					for d := -40 * s.fpp; d <= 40*s.fpp; d++ {
						w := vAbVal(ch.ch, frame+d)
						if inverted[ch.ch] {
							w ^= 0xffff
						}
						if s.rescale {
							w >>= 4
						}
						if w == uint16(v) {
							hint = fmt.Sprintf(" (the value is that of frame %+d, i.e. packet %d)", d, (frame+d)/s.fpp)
							break
						}
					}
					c.Violate("c03:wrong-sample", "channel %d (group first=%d): block %d sample %d (stream position %d = packet %d frame %d) is %d, expected %d%s\n%s",
						ch.ch, s.groups[ch.gi].first, bi, i, pos-1, idx, frame%s.fpp, uint16(v), want, hint, s)
					return
				}
				c.Cov("samples_checked", 1)
			}
		}
	}
	c.Cov("filler_frames_emitted", fillerOut)
	// dropped frames: every lost packet up to the last delivered one was filled; all of them are emitted or queued.
	// At this point (script fully emitted, trailer loss-free) every filled frame of the script has been emitted.
	filled := 0
	for gi := range s.groups {
		for idx := range s.groups[gi].lost {
			if idx < lastDelivered[gi] {
				filled += s.fpp
			}
		}
	}
	c.Cov("frames_filled_expected", filled)
	c.Cov("dropped_frames_reported", reported)
	if reported != filled {
		c.Violate("c03:dropped-count", "sum of reported dropped frames over all blocks is %d, but %d frames were filled in (lost packets x frames per packet, summed over groups)\n%s",
			reported, filled, s)
		return
	}
	if filled > 0 {
		c.Cov("runs_with_loss", 1)
	}
	for p := range run.stops {
		if run.stops[p] < 1 {
			c.Violate("c03:producer-not-stopped", "producer %d was not stopped after Stop()", p)
		}
	}
}

func init() {
	vRegister("C03", &vProp{
		Cases: func(tier string) int {
			if tier == "thorough" {
				return 1600
			}
			return 96
		},
		Run: vRunAbaco,
		Meta: vMeta{Level: "exploration",
			Rule: "case = script (1-4 channel groups on 1-3 producers, 1-8 channels each, 1-32 frames per packet, int16/int32 payloads, per-group sequence-number bases, per-group loss pattern none/isolated/bursts/long run/first packets/dense (and, in one case of 24, an outage of 1030-1250 packets in one group of a 1300-1700-packet script), per-tick per-group batching incl. empty ticks and lagging groups), executed 3 (quick) or 6 (thorough) times because the reader iterates a Go map; the real Start..CoreLoop pipeline runs against scripted PacketProducers and every block handed to ProcessSegments is compared with the per-channel reference stream (delivered samples, frames-per-packet filler per lost packet), equal lengths, contiguous frame numbers and the dropped-frame total; non-trivial = every executed script; additions: external-trigger packets mixed into the stream (1 case in 4), a slow consumer (1 in 3), and a quiescence phase at the end (no more packets; after six empty ticks nothing complete may be held back); one case in 16 uses the shared-memory device instead (AbacoRing over a real ring the harness publishes into in pieces that ignore packet boundaries, before and after start and a second discard): every read must return exactly the whole packets published and not yet read, in order and bit-exact; one case in 16 uses the UDP device over a loopback socket (whole packets of several lengths, packets cut short, noise, empty datagrams): what it hands on must be a subsequence of the whole packets sent, each bit-exact, and a batch handed on earlier must not change; one case in 3 of the non-unwrapping ones inverts 1-2 channels, with or without rescaling",
			Assumptions: []string{"all groups use the same frames per packet (the code panics otherwise and says so)", "every group has at least two time-stamped packets while sampling (the sample rate and the relation between the groups' sequence numbers are derived from them; the code panics if groups disagree on the rate); 1 case in 5 stamps only every other packet of the run and leaves a group's last sampled packet unstamped; streams without any timestamp only with a single group", "the run continues the sequence numbers seen while sampling",
				"filler values are not constrained, only their count", "dropped frames are counted per group (two groups losing one packet each = 2 x frames per packet)"},
			Guards: map[string]map[string]int{
				"quick":    {"runs": 200, "samples_checked": 100000, "loss_after_leftover": 50, "multi_group_blocks": 2000, "loss_at_tick_edge": 50, "filler_frames_emitted": 2000, "ticks_bailed_out": 200, "ring_device_histories": 4, "udp_device_histories": 4, "udp_datagrams_cut_short": 20, "ring_device_discards_with_a_packet_in_flight": 10, "runs_with_inverted_channels_without_unwrapping": 20},
				"thorough": {"runs": 5000, "loss_after_leftover": 1000},
			}},
	})
}
