package PKGNAME

// C16 — status replay and configuration persistence are complete and crash-safe.
//
// Replay: the real RunClientUpdater runs in this process on a private port; a SUB socket
// subscribed to everything records the wire. 1-3 publisher goroutines push updates (real
// topics with values of the real persisted types, synthetic topics, repeats, unchanged
// values) into clientMessageChan, then FENCE_A, SENDALL, FENCE_B. Live publications and the
// replay leave through one socket in the updater's dequeue order, so the wire itself is the
// linearisation: for every topic the last message seen before the replay must be replayed
// exactly once, and nothing else.
//
// Persistence: with the save delay shortened by the hook, the file written by the real
// saveState is read by a fresh viper instance with the very calls the start-up code uses
// (UnmarshalKey into the configuration types) and compared with the last published values.
//
// Crash safety: a child process (this test binary re-executed) saves version 1 twice, changes
// every persistent topic and calls the real saveState with the hook handler set to SIGKILL the
// process at one of the points between its file-system steps; the parent then inspects the
// directory before any start-up code runs: the file the next start-up reads must exist, parse
// and be version 1 or version 2 completely.

import (
	"bytes"
	"encoding/json"
	"fmt"
	"net/rpc"
	"net/rpc/jsonrpc"
	"os"
	"os/exec"
	"path/filepath"
	"reflect"
	"regexp"
	"runtime"
	"sort"
	"strings"
	"sync"
	"sync/atomic"
	"syscall"
	"time"

	"github.com/pebbe/zmq4"
	"github.com/spf13/viper"
)

type vWireMsg struct {
	tag  string
	body string
}

type vStatusEnv struct {
	rpcSC      *SourceControl // an in-package server object wired to the client-updater queue (for SendAllStatus)
	ok         bool
	err        error
	sub        *zmq4.Socket
	wire       chan vWireMsg
	last       map[string]string // per topic: last body seen on the wire (the linearisation)
	cfgPath    string
	saves      int64
	saveBegins int64 // saves attempted (hook save.begin)
	fenceNo    int
	// a persistent topic that only the configuration file of an "earlier run" holds: read at start-up, published by nobody in this
	// process until inheritedChecks histories have been checked with it (after that the generators may publish the topic)
	inherited       map[string]any
	inheritedChecks int
}

// vHoldBack: the generators do not publish an inherited topic before it has been checked a few times.
func (e *vStatusEnv) holdBack(tag string) bool {
	_, inh := e.inherited[tag]
	return inh && e.inheritedChecks < 8
}

var vSE vStatusEnv

func vStatusSetup(tier string) {
	e := &vSE
	if os.Getenv("VERIF_CHILD") != "" {
		return
	}
	verifInstall(&verifHandlers{
		Point: func(name string) {
			if name == "save.done" {
				atomic.AddInt64(&e.saves, 1)
			}
			if name == "save.begin" {
				atomic.AddInt64(&e.saveBegins, 1)
			}
		},
		Duration: func(name string, d time.Duration) time.Duration {
			if name == "updater.saveDelay" {
				return 25 * time.Millisecond
			}
			return d
		},
	})
	home, _ := os.UserHomeDir()
	os.MkdirAll(filepath.Join(home, ".dastard"), 0o755)
	e.cfgPath = filepath.Join(home, ".dastard", "config.yaml")
	// the file an earlier run left behind: it holds trigger settings (dastard publishes TRIGGER only while a source runs, so a run
	// that never starts one saves its configuration without ever publishing that topic)
	inh := []FullTriggerState{{ChannelIndices: []int{0, 1, 2}}}
	inh[0].AutoTrigger, inh[0].AutoDelay = true, 250*time.Millisecond
	inh[0].LevelTrigger, inh[0].LevelRising, inh[0].LevelLevel = true, true, 4321
	viper.Reset()
	viper.Set("verbose", false)
	viper.Set("trigger", inh)
	if err := viper.WriteConfigAs(e.cfgPath); err != nil {
		e.err = err
		return
	}
	e.inherited = map[string]any{"TRIGGER": inh}
	viper.Reset()
	viper.SetConfigFile(e.cfgPath)
	if err := viper.ReadInConfig(); err != nil {
		e.err = err
		return
	}
	base := vPickPortBase(6)
	setPortnumbers(base)
	abort := make(chan struct{})
	go RunClientUpdater(Ports.Status, abort)
	sub, err := zmq4.NewSocket(zmq4.SUB)
	if err != nil {
		e.err = err
		return
	}
	sub.SetRcvhwm(0)
	sub.SetSubscribe("")
	if err := sub.Connect(fmt.Sprintf("tcp://127.0.0.1:%d", Ports.Status)); err != nil {
		e.err = err
		return
	}
	e.sub = sub
	e.wire = make(chan vWireMsg, 1<<16)
	e.last = map[string]string{}
	go func() {
		for {
			m, err := sub.RecvMessage(0)
			if err != nil {
				continue
			}
			if len(m) == 2 {
				e.wire <- vWireMsg{m[0], m[1]}
			}
		}
	}()
	vFindKillPoints(os.Getenv("VERIF_OUT"))
	// slow joiner: publish a sentinel until it arrives
	deadline := time.Now().Add(30 * time.Second)
	for i := 0; ; i++ {
		clientMessageChan <- ClientUpdate{"SENTINEL", i}
		select {
		case m := <-e.wire:
			e.last[m.tag] = m.body
			// the publisher is connected; from here on nothing is lost. Wait until the sentinels are through.
			clientMessageChan <- ClientUpdate{"SENTINELEND", i}
			for {
				m2 := <-e.wire
				e.last[m2.tag] = m2.body
				if m2.tag == "SENTINELEND" {
					e.ok = true
					return
				}
			}
		case <-time.After(30 * time.Millisecond):
		}
		if time.Now().After(deadline) {
			e.err = fmt.Errorf("subscriber never received the sentinel")
			return
		}
	}
}

// ---------------------------------------------------------------- value generators (real persisted types)

func vGenStatusValue(c *vCase, tag string) any {
	r := c.R
	switch tag {
	case "TRIANGLE":
		return &TriangleSourceConfig{Nchan: 1 + r.Intn(64), SampleRate: float64(vPick(r, 1000, 12345, 200000)) + r.Float64(), Min: RawType(r.Intn(1000)), Max: RawType(1000 + r.Intn(60000))}
	case "SIMPULSE":
		return &SimPulseSourceConfig{Nchan: 1 + r.Intn(64), SampleRate: 1e5 * (1 + r.Float64()), Pedestal: 1000 * r.Float64(), Amplitudes: []float64{1000 * r.Float64(), 5000, float64(r.Intn(9000))}, Nsamp: 100 + r.Intn(5000)}
	case "LANCERO":
		return &LanceroSourceConfig{FiberMask: uint32(r.Intn(65536)), CardDelay: []int{r.Intn(10), r.Intn(10)}, ActiveCards: []int{r.Intn(4)}, ShouldAutoRestart: vChance(r, 0.5),
			FirstRow: r.Intn(100), ChanSepCards: r.Intn(1000), ChanSepColumns: r.Intn(100)}
	case "ABACO":
		return &AbacoSourceConfig{ActiveCards: []int{r.Intn(3)}, HostPortUDP: []string{fmt.Sprintf("localhost:%d", 4000+r.Intn(1000))},
			AbacoUnwrapOptions: AbacoUnwrapOptions{RescaleRaw: true, Unwrap: vChance(r, 0.5), Bias: vChance(r, 0.5), ResetAfter: 1 + r.Intn(30000), PulseSign: vPick(r, -1, 1), InvertChan: []int{r.Intn(50), r.Intn(50)}}}
	case "ROACH":
		return &RoachSourceConfig{HostPort: []string{fmt.Sprintf("10.0.0.%d:6000", r.Intn(250))}, Rates: []float64{40000 + float64(r.Intn(1000))}}
	case "STATUS":
		np := 3 + r.Intn(500)
		return ServerStatus{Running: vChance(r, 0.5), SourceName: vPick(r, "Triangles", "Lancero", "Abaco"), Nchannels: r.Intn(500), Nsamples: np + 1 + r.Intn(2000), Npresamp: np,
			SamplePeriod: time.Duration(1000 + r.Intn(100000)), ChanGroups: []GroupIndex{{Firstchan: r.Intn(10), Nchan: 1 + r.Intn(30)}}, ChannelsWithProjectors: []int{r.Intn(5)}}
	case "WRITING":
		return &WritingState{Active: vChance(r, 0.3), Paused: vChance(r, 0.2), BasePath: fmt.Sprintf(vPick(r, "/data/run%d", "/data/run%d", "/data/$run%d/${HOME}x"), r.Intn(100000)), FilenamePattern: "p%s.%s", WriteLJH22: vChance(r, 0.5), WriteOFF: vChance(r, 0.5)}
	case "TRIGGER":
		var out []FullTriggerState
		for i := 0; i < 1+r.Intn(3); i++ {
			f := FullTriggerState{ChannelIndices: []int{i, 10 + r.Intn(5)}}
			f.AutoTrigger = vChance(r, 0.5)
			f.AutoDelay = time.Duration(r.Intn(1000)) * time.Millisecond
			f.AutoVetoRange = RawType(r.Intn(1000))
			f.LevelTrigger, f.LevelRising, f.LevelLevel = vChance(r, 0.5), vChance(r, 0.5), RawType(r.Intn(65536))
			f.EdgeTrigger, f.EdgeRising, f.EdgeFalling, f.EdgeLevel = vChance(r, 0.5), vChance(r, 0.5), vChance(r, 0.5), int32(r.Intn(10000)-5000)
			out = append(out, f)
		}
		return out
	case "GROUPTRIGGER":
		return GroupTriggerState{Connections: map[int][]int{r.Intn(5): {r.Intn(9), r.Intn(9)}}}
	case "MIX":
		return []float64{r.Float64(), -r.Float64(), 0}
	case "TESMAPFILE":
		return fmt.Sprintf("/maps/map%d.cfg", r.Intn(100))
	case "STATELABEL":
		return vPick(r, "A", "calibration", "noise run", "")
	case "TRIGCOUPLING":
		return CouplingStatus(1 + r.Intn(3))
	case "ALIVE":
		return Heartbeat{Running: true, Time: r.Float64(), HWactualMB: r.Float64(), DataMB: r.Float64()}
	case "TRIGGERRATE":
		return struct{ CountsSeen []int }{[]int{r.Intn(100), r.Intn(100)}}
	case "NUMBERWRITTEN":
		return struct{ NumberWritten []int }{[]int{r.Intn(100)}}
	case "CHANNELNAMES":
		return []string{"chan1", fmt.Sprintf("chan%d", r.Intn(99))}
	case "NEWDASTARD":
		return "new Dastard is running"
	}
	// synthetic topics
	return map[string]any{"n": r.Intn(5), "s": vPick(r, "x", "y", "")}
}

var vStatusTags = []string{"TRIANGLE", "SIMPULSE", "LANCERO", "ABACO", "ROACH", "STATUS", "WRITING", "TRIGGER", "GROUPTRIGGER", "MIX", "TESMAPFILE", "STATELABEL", "TRIGCOUPLING",
	"ALIVE", "TRIGGERRATE", "NUMBERWRITTEN", "CHANNELNAMES", "NEWDASTARD", "SYNTH1", "SYNTH2", "SYNTH3", "synthlower", "SYNTH_4"}

// vDrainWireUntil consumes the wire up to and including the message (tag, body); returns what came before it.
func vDrainWireUntil(c *vCase, tag, body string) ([]vWireMsg, bool) {
	e := &vSE
	var out []vWireMsg
	t := time.NewTimer(60 * time.Second)
	defer t.Stop()
	for {
		select {
		case m := <-e.wire:
			if m.tag == tag && m.body == body {
				return out, true
			}
			out = append(out, m)
		case <-t.C:
			c.Inconclusive("slow:c16", "fence %s did not arrive on the SUB socket within 60 s", tag)
			vRestartAfterCase = true
			vSE.ok = false // the record of the wire is no longer a complete linearisation: later cases of this process cannot be judged
			vSE.err = fmt.Errorf("a fence message was lost or late; the wire record is incomplete")
			return out, false
		}
	}
}

func vRunReplay(c *vCase) {
	e := &vSE
	r := c.R
	npub := 1 + r.Intn(3)
	nupd := vRange(r, 5, 60)
	c.Describe("replay: %d publishers, %d updates, seed %d idx %d", npub, nupd, c.Seed, c.Idx)
	// per publisher a list of updates
	lists := make([][]ClientUpdate, npub)
	var prev []ClientUpdate
	for i := 0; i < nupd; i++ {
		p := r.Intn(npub)
		var u ClientUpdate
		if len(prev) > 0 && vChance(r, 0.25) {
			u = prev[r.Intn(len(prev))] // republish an earlier value (unchanged if it is still the latest)
			c.Cov("republished_values", 1)
		} else {
			tag := vStatusTags[r.Intn(len(vStatusTags))]
			for e.holdBack(tag) {
				tag = vStatusTags[r.Intn(len(vStatusTags))]
			}
			if _, inh := e.inherited[tag]; inh {
				delete(e.inherited, tag) // published in this process from now on
			}
			u = ClientUpdate{tag, vGenStatusValue(c, tag)}
		}
		prev = append(prev, u)
		lists[p] = append(lists[p], u)
	}
	var wg sync.WaitGroup
	for p := 0; p < npub; p++ {
		wg.Add(1)
		go func(us []ClientUpdate) {
			defer wg.Done()
			for _, u := range us {
				clientMessageChan <- u
			}
		}(lists[p])
	}
	wg.Wait()
	e.fenceNo++
	fa := fmt.Sprintf("FENCEA%d", os.Getpid()) // constant topics, unique bodies: the set of topics does not grow with the cases
	fb := fmt.Sprintf("FENCEB%d", os.Getpid())
	viaRPC := c.Idx%8 < 4
	if viaRPC {
		// the request comes in through the RPC method, at a moment when the updater's queue is full (a burst of status traffic
		// just before it): it publishes STATUS and then asks for the replay
		if vSE.rpcSC == nil {
			sc, stopHB := vNewInPackageControl()
			close(stopHB) // no heartbeat traffic from this object: only its SendAllStatus method is used
			vSE.rpcSC = sc
		}
		for i := 0; i < 14; i++ {
			clientMessageChan <- ClientUpdate{fmt.Sprintf("BURST%d", os.Getpid()), fmt.Sprintf("%d.%d", e.fenceNo, i)}
		}
		clientMessageChan <- ClientUpdate{fa, e.fenceNo}
		var dummy string
		var okay bool
		vSE.rpcSC.SendAllStatus(&dummy, &okay)
		c.Cov("replays_requested_through_the_rpc_method", 1)
	} else {
		clientMessageChan <- ClientUpdate{fa, e.fenceNo}
		clientMessageChan <- ClientUpdate{"SENDALL", 0}
	}
	clientMessageChan <- ClientUpdate{fb, e.fenceNo}
	body := fmt.Sprint(e.fenceNo)
	live, ok := vDrainWireUntil(c, fa, body)
	if !ok {
		return
	}
	for _, m := range live {
		if m.tag != "NEWDASTARD" {
			e.last[m.tag] = m.body
		}
		c.Cov("live_messages", 1)
	}
	e.last[fa] = body
	replay, ok := vDrainWireUntil(c, fb, body)
	if !ok {
		return
	}
	defer func() { e.last[fb] = body }() // FENCE_B was published after the replay: it counts from the next replay on
	if viaRPC {
		// the STATUS message the RPC method publishes before it asks for the replay is a live publication (it is not sent when
		// it equals the previous STATUS): when STATUS occurs twice between the fences, the first one is that
		n := 0
		for _, m := range replay {
			if m.tag == "STATUS" {
				n++
			}
		}
		if n == 2 {
			for i, m := range replay {
				if m.tag == "STATUS" {
					e.last["STATUS"] = m.body
					replay = append(append([]vWireMsg(nil), replay[:i]...), replay[i+1:]...)
					break
				}
			}
		}
	}
	seen := map[string]int{}
	for _, m := range replay {
		seen[m.tag]++
		want, known := e.last[m.tag]
		if !known {
			c.Violate("c16:replay-unknown-topic", "the replay contains topic %q (%s), which was never published as a status topic in this run", m.tag, vTrim(m.body, 200))
			return
		}
		if m.body != want {
			c.Violate("c16:replay-stale", "the replay of topic %q is %s, but the most recent message of that topic was %s", m.tag, vTrim(m.body, 300), vTrim(want, 300))
			return
		}
		c.Cov("replayed_messages", 1)
	}
	for tag := range e.last {
		if seen[tag] != 1 {
			c.Violate("c16:replay-count", "topic %q was published in this run (last value %s) but appears %d times in the reply to SENDALL (%d topics replayed, %d known)", tag, vTrim(e.last[tag], 200), seen[tag], len(seen), len(e.last)-1)
			return
		}
	}
	if c.Idx < 8 {
		var topics []string
		for _, m := range replay {
			topics = append(topics, m.tag)
		}
		c.Describe("replay contained %d topics %v after %d live messages", len(replay), topics, len(live))
	}
	c.Cov("replays", 1)
	c.Cov("max:topics_in_replay", len(seen))
	c.Nontrivial()
}

// ---------------------------------------------------------------- persistence

// vPersistCompare reads the config file the way the start-up code does and compares with what was published last.
func vPersistCompare(c *vCase, path string, want map[string]any, what string) bool {
	v := viper.New()
	v.SetConfigFile(path)
	if err := v.ReadInConfig(); err != nil {
		c.Violate("c16:config-unreadable", "%s: the saved configuration file cannot be read back: %v", what, err)
		return false
	}
	cmp := func(topic string, got, exp any) bool {
		gj, _ := json.Marshal(got)
		ej, _ := json.Marshal(exp)
		// a nil and an empty list are the same configuration
		same := strings.ReplaceAll(string(gj), "null", "[]") == strings.ReplaceAll(string(ej), "null", "[]")
		if !same && !reflect.DeepEqual(got, exp) {
			c.Violate("c16:restore-"+strings.ToLower(topic), "%s: topic %s read back from the configuration file as %s, the last published value was %s", what, topic, vTrim(string(gj), 400), vTrim(string(ej), 400))
			return false
		}
		c.Cov("restored_topics_compared", 1)
		return true
	}
	for topic, exp := range want {
		key := strings.ToLower(topic)
		if !v.IsSet(key) {
			c.Violate("c16:not-saved", "%s: persistent topic %s is missing from the saved configuration file", what, topic)
			return false
		}
		switch x := exp.(type) {
		case *TriangleSourceConfig:
			var g TriangleSourceConfig
			if err := v.UnmarshalKey(key, &g); err != nil || !cmp(topic, g, *x) {
				return false
			}
		case *SimPulseSourceConfig:
			var g SimPulseSourceConfig
			if err := v.UnmarshalKey(key, &g); err != nil || !cmp(topic, g, *x) {
				return false
			}
		case *LanceroSourceConfig:
			var g LanceroSourceConfig
			if err := v.UnmarshalKey(key, &g); err != nil {
				return false
			}
			g.DastardOutput, x.DastardOutput = LanceroDastardOutputJSON{}, LanceroDastardOutputJSON{}
			if !cmp(topic, g, *x) {
				return false
			}
		case *AbacoSourceConfig:
			var g AbacoSourceConfig
			if err := v.UnmarshalKey(key, &g); err != nil {
				return false
			}
			g.AvailableCards, x.AvailableCards = nil, nil
			if !cmp(topic, g, *x) {
				return false
			}
		case *RoachSourceConfig:
			var g RoachSourceConfig
			if err := v.UnmarshalKey(key, &g); err != nil || !cmp(topic, g, *x) {
				return false
			}
		case ServerStatus:
			var g ServerStatus
			if err := v.UnmarshalKey(key, &g); err != nil {
				return false
			}
			// record lengths are what the next run takes from here
			if !cmp(topic, [2]int{g.Npresamp, g.Nsamples}, [2]int{x.Npresamp, x.Nsamples}) {
				return false
			}
		case *WritingState:
			var g WritingState
			if err := v.UnmarshalKey(key, &g); err != nil || !cmp(topic, g.BasePath, x.BasePath) {
				return false
			}
		case []FullTriggerState:
			var g []FullTriggerState
			if err := v.UnmarshalKey(key, &g); err != nil {
				c.Violate("c16:restore-trigger", "%s: the trigger settings cannot be read back: %v", what, err)
				return false
			}
			if len(g) != len(x) {
				return cmp(topic, len(g), len(x))
			}
			for i := range g {
				g[i].EdgeMulti, g[i].EMTState, g[i].EMTBackwardCompatibleRPCFields = false, EMTState{}, EMTBackwardCompatibleRPCFields{}
				e := x[i]
				e.EdgeMulti, e.EMTState, e.EMTBackwardCompatibleRPCFields = false, EMTState{}, EMTBackwardCompatibleRPCFields{}
				if !cmp(topic, g[i], e) {
					return false
				}
			}
		case string:
			if !cmp(topic, v.GetString(key), x) {
				return false
			}
		}
	}
	return true
}

// vCheckTriggerRestore: a fresh process reads a copy of the file and prepares a 16-channel source; every channel
// must come up with the settings of the (last) saved group that lists it, the others with everything disabled.
func vCheckTriggerRestore(c *vCase, cfgPath string, saved []FullTriggerState) bool {
	b, err := os.ReadFile(cfgPath)
	if err != nil {
		return true
	}
	cp := filepath.Join(c.Dir, "restore.yaml")
	os.MkdirAll(c.Dir, 0o755)
	os.WriteFile(cp, b, 0o644)
	// The source has 16 channels, or (every other history, decided by what was saved) exactly as many as the
	// highest saved channel index needs, so that the source's last channel is one that a saved group lists.
	n := 16
	top, sum := -1, 0
	for gi := range saved {
		for _, ci := range saved[gi].ChannelIndices {
			sum += ci + 1
			if ci > top {
				top = ci
			}
		}
	}
	if top >= 0 && (sum+len(saved))%2 == 0 {
		n = top + 1
		c.Cov("trigger_restores_last_channel_listed", 1)
	}
	cmd := exec.Command(os.Args[0], "-test.run", "^TestVerif$")
	cmd.Env = append(os.Environ(), "VERIF_CHILD=restore", "VERIF_CFG="+cp, fmt.Sprintf("VERIF_NCHAN=%d", n), "VERIF_PROP=C16", "HOME="+c.Dir)
	out, err := cmd.CombinedOutput()
	i := strings.Index(string(out), "RESTORED ")
	if err != nil || i < 0 {
		c.Inconclusive("child", "restore child failed: %v %s", err, vTrim(string(out), 600))
		return false
	}
	line := string(out)[i+len("RESTORED "):]
	if j := strings.Index(line, "\n"); j >= 0 {
		line = line[:j]
	}
	var got []TriggerState
	if err := json.Unmarshal([]byte(line), &got); err != nil || len(got) != n {
		c.Inconclusive("child", "cannot parse the restore child's output: %v", err)
		return false
	}
	type core struct {
		AutoTrigger                          bool
		AutoDelay                            time.Duration
		AutoVetoRange                        RawType
		LevelTrigger, LevelRising            bool
		LevelLevel                           RawType
		EdgeTrigger, EdgeRising, EdgeFalling bool
		EdgeLevel                            int32
		EdgeMulti                            bool
	}
	pick := func(t TriggerState) core {
		return core{t.AutoTrigger, t.AutoDelay, t.AutoVetoRange, t.LevelTrigger, t.LevelRising, t.LevelLevel, t.EdgeTrigger, t.EdgeRising, t.EdgeFalling, t.EdgeLevel, t.EdgeMulti}
	}
	for ch := 0; ch < n; ch++ {
		var exp *TriggerState
		for gi := range saved {
			for _, ci := range saved[gi].ChannelIndices {
				if ci == ch {
					exp = &saved[gi].TriggerState
				}
			}
		}
		if exp == nil {
			if got[ch].AutoTrigger || got[ch].EdgeTrigger || got[ch].LevelTrigger || got[ch].EdgeMulti {
				c.Violate("c16:restore-trigger-unlisted", "channel %d is in no saved trigger group but came up with a trigger enabled: %+v", ch, pick(got[ch]))
				return false
			}
			continue
		}
		w := pick(*exp)
		w.EdgeMulti = false // documented: not restored
		if pick(got[ch]) != w {
			c.Violate("c16:restore-trigger-channel", "channel %d came up with trigger settings %+v after a restart, the saved group for it says %+v (saved groups: %d)", ch, pick(got[ch]), w, len(saved))
			return false
		}
		c.Cov("trigger_channels_restored", 1)
	}
	c.Cov("trigger_restores_in_fresh_process", 1)
	return true
}

var vPersistTags = []string{"TRIANGLE", "SIMPULSE", "LANCERO", "ABACO", "ROACH", "STATUS", "WRITING", "TRIGGER", "TESMAPFILE"}

func vRunPersist(c *vCase) {
	e := &vSE
	r := c.R
	want := map[string]any{}
	n := vRange(r, 3, 25)
	c.Describe("persist: %d updates seed %d idx %d", n, c.Seed, c.Idx)
	if c.Idx%20 == 9 {
		// single I/O failure in a save: the temporary file cannot be written (a directory sits at its name). That save is lost;
		// once the obstacle is gone the following saves must work as before.
		tmpname := strings.Replace(e.cfgPath, ".yaml", ".tmp.yaml", 1)
		if os.Mkdir(tmpname, 0o755) == nil {
			b0 := atomic.LoadInt64(&e.saveBegins)
			tag := "TRIANGLE"
			val := vGenStatusValue(c, tag)
			want[tag] = val
			clientMessageChan <- ClientUpdate{tag, val}
			for i := 0; i < 300 && atomic.LoadInt64(&e.saveBegins) == b0; i++ {
				time.Sleep(10 * time.Millisecond)
			}
			attempted := atomic.LoadInt64(&e.saveBegins) > b0
			time.Sleep(30 * time.Millisecond)
			os.Remove(tmpname)
			// (a save is scheduled by a change: one more change after the obstacle is gone, so that the lost save is made up for)
			tag2 := "SIMPULSE"
			val2 := vGenStatusValue(c, tag2)
			want[tag2] = val2
			clientMessageChan <- ClientUpdate{tag2, val2}
			if attempted {
				c.Cov("persist_histories_with_a_failed_save", 1)
			}
		}
	}
	for i := 0; i < n; i++ {
		tag := vPersistTags[r.Intn(len(vPersistTags))]
		for e.holdBack(tag) {
			tag = vPersistTags[r.Intn(len(vPersistTags))]
		}
		if _, inh := e.inherited[tag]; inh {
			delete(e.inherited, tag) // published in this process from now on
		}
		if vChance(r, 0.2) {
			tag = vPick(r, "ALIVE", "TRIGGERRATE", "CHANNELNAMES", "SYNTH1") // traffic that must not disturb the save
			clientMessageChan <- ClientUpdate{tag, vGenStatusValue(c, tag)}
			continue
		}
		val := vGenStatusValue(c, tag)
		want[tag] = val
		clientMessageChan <- ClientUpdate{tag, val}
		if vChance(r, 0.3) {
			clientMessageChan <- ClientUpdate{tag, val} // unchanged republication
		}
		if vChance(r, 0.1) {
			time.Sleep(40 * time.Millisecond) // let a save happen in the middle of the history
		}
	}
	// what the configuration file held when the program started and nobody has published since is still the latest value of its
	// topic: the saves of this run must keep it
	for tag, val := range e.inherited {
		if _, published := want[tag]; !published && len(want) > 0 {
			want[tag] = val
			e.inheritedChecks++
			c.Cov("persist_histories_with_a_topic_from_an_earlier_run", 1)
		}
	}
	// fence so that everything has been taken by the updater; then wait for the next save to complete
	e.fenceNo++
	s0 := atomic.LoadInt64(&e.saves)
	fa := fmt.Sprintf("FENCEP%d", os.Getpid())
	fbody := fmt.Sprint(e.fenceNo)
	if len(want) > 0 && vChance(r, 0.5) {
		// the history ends with fresh traffic on a topic that is published but never saved: the save that the
		// last persistent change scheduled must still happen
		fa = "TRIGGERRATE"
		fbody = fmt.Sprintf(`{"CountsSeen":[%d,%d]}`, os.Getpid(), e.fenceNo)
		clientMessageChan <- ClientUpdate{fa, struct{ CountsSeen []int }{[]int{os.Getpid(), e.fenceNo}}}
		c.Cov("persist_histories_ending_with_unsaved_topic", 1)
	} else {
		clientMessageChan <- ClientUpdate{fa, e.fenceNo}
	}
	live, ok := vDrainWireUntil(c, fa, fbody)
	if !ok {
		return
	}
	for _, m := range live {
		if m.tag != "NEWDASTARD" {
			e.last[m.tag] = m.body
		}
	}
	e.last[fa] = fbody
	_ = s0
	// the values must reach the file: the save delay is 25 ms; poll (bounded) until the file holds them
	t0 := time.Now()
	for !vPersistCompareQuiet(e.cfgPath, want) {
		time.Sleep(20 * time.Millisecond)
		if time.Since(t0) > 15*time.Second {
			break // report what is wrong with the file below
		}
	}
	if tr, ok := want["TRIGGER"].([]FullTriggerState); ok && vPersistCompareQuiet(e.cfgPath, want) {
		if !vCheckTriggerRestore(c, e.cfgPath, tr) {
			return
		}
	}
	if vPersistCompare(c, e.cfgPath, want, fmt.Sprintf("%.1f s after a history that ended with %s (save delay 25 ms)", time.Since(t0).Seconds(), fa)) {
		c.Cov("persist_histories", 1)
		c.Nontrivial()
	}
}

// vPersistCompareQuiet: does the file already hold the wanted values? (no verdict; used only to wait for the save)
func vPersistCompareQuiet(p string, want map[string]any) bool {
	probe := &vCase{}
	probe.res.Kind = "held"
	return vPersistCompare(probe, p, want, "") && !probe.Violated()
}

// ---------------------------------------------------------------- crash points (child process)

var vSavePoints = []string{"save.begin", "save.tmpWritten", "save.bakRemoved", "save.mainMoved", "save.done"}

func vVersionValues(ver int) map[string]any {
	// record lengths incl. the smallest ones the server accepts (3 pre-trigger samples; one post-trigger sample)
	npre, nsamp := 100*ver, 400*ver
	switch ver % 4 {
	case 0:
		nsamp = npre + 1
	case 1:
		npre = 3
	}
	// text settings may hold any characters: every other version has '$' in its paths (a saved text is not a shell expression)
	base, mapfile := fmt.Sprintf("/data/version%d", ver), fmt.Sprintf("/maps/version%d.cfg", ver)
	if ver%2 == 1 {
		base, mapfile = fmt.Sprintf("/data/run$%d/$HOME/version%d", ver%10, ver), fmt.Sprintf("/maps/${USER}/version%d$$.cfg", ver)
	}
	return map[string]any{
		"TRIANGLE":   &TriangleSourceConfig{Nchan: 10 + ver, SampleRate: 1000 * float64(ver), Min: RawType(ver), Max: RawType(1000 + ver)},
		"SIMPULSE":   &SimPulseSourceConfig{Nchan: 20 + ver, SampleRate: 2000 * float64(ver), Pedestal: float64(ver), Amplitudes: []float64{float64(ver)}, Nsamp: 100 * ver},
		"STATUS":     ServerStatus{Npresamp: npre, Nsamples: nsamp, SourceName: fmt.Sprintf("v%d", ver)},
		"WRITING":    &WritingState{BasePath: base},
		"TESMAPFILE": mapfile,
		"ABACO": &AbacoSourceConfig{ActiveCards: []int{ver % 3}, HostPortUDP: []string{fmt.Sprintf("localhost:%d", 4000+ver)},
			AbacoUnwrapOptions: AbacoUnwrapOptions{RescaleRaw: true, Unwrap: ver%2 == 0, Bias: ver%3 == 0, ResetAfter: (1000 + ver) * (1 - ver%2), PulseSign: 1 - 2*(ver%2), InvertChan: []int{ver, ver + 1}}}, // (odd versions: unwrapping off and no reset interval, a legitimate saved value)
		"ROACH":   &RoachSourceConfig{HostPort: []string{fmt.Sprintf("10.0.0.%d:6000", 1+ver%200)}, Rates: []float64{40000 + float64(ver)}},
		"LANCERO": &LanceroSourceConfig{FiberMask: uint32(ver), CardDelay: []int{ver % 7}, ActiveCards: []int{ver % 4}, FirstRow: ver, ChanSepCards: 100 * ver, ChanSepColumns: ver},
		"TRIGGER": []FullTriggerState{
			{ChannelIndices: []int{0, 2}, TriggerState: TriggerState{AutoTrigger: true, AutoDelay: time.Duration(ver) * time.Millisecond, LevelLevel: RawType(ver)}},
			{ChannelIndices: []int{1}, TriggerState: TriggerState{EdgeTrigger: true, EdgeRising: true, EdgeLevel: int32(100 + ver), LevelTrigger: ver%2 == 0, LevelLevel: RawType(1000 + ver)}},
		},
	}
}

// vRestoreChild: a fresh process reads the configuration file the way the next run does and prepares a source;
// it prints the trigger settings every channel ended up with.
func vRestoreChild() {
	PubRecordsChan = make(chan []*DataRecord, 16)
	PubSummariesChan = make(chan []*DataRecord, 16)
	viper.Reset()
	viper.SetConfigFile(os.Getenv("VERIF_CFG"))
	if err := viper.ReadInConfig(); err != nil {
		fmt.Println("CHILD-ERROR", err)
		os.Exit(3)
	}
	n := 16
	fmt.Sscan(os.Getenv("VERIF_NCHAN"), &n)
	ds := vNewAnySource(n, 10*time.Microsecond)
	if err := ds.PrepareChannels(); err != nil {
		fmt.Println("CHILD-ERROR", err)
		os.Exit(3)
	}
	if err := ds.PrepareRun(8, 32); err != nil {
		fmt.Println("CHILD-ERROR", err)
		os.Exit(3)
	}
	states := make([]TriggerState, n)
	for i, dsp := range ds.processors {
		states[i] = dsp.TriggerState
	}
	b, _ := json.Marshal(states)
	fmt.Println("RESTORED " + string(b))
	os.Exit(0)
}

// vStartupChild runs inside a private network namespace: it starts the REAL dastard program (built from the current
// tree) with the given HOME, asks it for all status over JSON-RPC, starts the triangle source, and prints what the
// status socket said.
func vStartupChild() {
	bin := os.Getenv("VERIF_EXTRA_BIN")
	home, _ := os.UserHomeDir()
	cmd := exec.Command(bin)
	cmd.Dir = home
	cmd.Env = append(os.Environ(), "HOME="+home)
	logf, _ := os.Create(filepath.Join(home, "dastard.out"))
	cmd.Stdout, cmd.Stderr = logf, logf
	if err := cmd.Start(); err != nil {
		fmt.Println("CHILD-ERROR", err)
		os.Exit(3)
	}
	defer cmd.Process.Kill()
	fail := func(f string, a ...any) {
		fmt.Println("CHILD-ERROR " + fmt.Sprintf(f, a...))
		cmd.Process.Kill()
		os.Exit(3)
	}
	var client *rpc.Client
	var err error
	for i := 0; i < 200; i++ {
		if client, err = jsonrpc.Dial("tcp", "127.0.0.1:5500"); err == nil {
			break
		}
		time.Sleep(50 * time.Millisecond)
	}
	if err != nil {
		fail("the program did not open its RPC port: %v", err)
	}
	sub, err := zmq4.NewSocket(zmq4.SUB)
	if err != nil {
		fail("%v", err)
	}
	sub.SetSubscribe("")
	sub.SetRcvtimeo(200 * time.Millisecond)
	if err := sub.Connect("tcp://127.0.0.1:5501"); err != nil {
		fail("%v", err)
	}
	time.Sleep(400 * time.Millisecond) // subscription established
	got := map[string]string{}
	collect := func(d time.Duration) {
		end := time.Now().Add(d)
		for time.Now().Before(end) {
			if m, err := sub.RecvMessage(0); err == nil && len(m) == 2 {
				got[m[0]] = m[1]
			}
		}
	}
	var okay bool
	dummy := ""
	if err := client.Call("SourceControl.SendAllStatus", &dummy, &okay); err != nil {
		fail("SendAllStatus: %v", err)
	}
	collect(700 * time.Millisecond)
	name := "TRIANGLESOURCE"
	if err := client.Call("SourceControl.Start", &name, &okay); err != nil {
		got["__start_error"] = err.Error()
	} else {
		collect(700 * time.Millisecond)
		client.Call("SourceControl.Stop", &dummy, &okay)
	}
	b, _ := json.Marshal(got)
	fmt.Println("STARTUP " + string(b))
	cmd.Process.Kill()
	os.Exit(0)
}

// vStartReal starts the real program (in a private network namespace) with the given HOME and returns what it announces.
// ok=false with skipped=true where no namespace or binary is available.
func vStartReal(home string) (got map[string]string, out string, ok, skipped bool) {
	bin := os.Getenv("VERIF_EXTRA_BIN")
	if bin == "" {
		return nil, "", false, true
	}
	if _, err := exec.LookPath("unshare"); err != nil {
		return nil, "", false, true
	}
	sh := fmt.Sprintf("ip link set lo up && exec %q -test.run '^TestVerif$'", os.Args[0])
	cmd := exec.Command("unshare", "-n", "sh", "-c", sh)
	cmd.Env = append(os.Environ(), "VERIF_CHILD=startup", "HOME="+home, "VERIF_PROP=C16", "VERIF_EXTRA_BIN="+bin)
	b, err := cmd.CombinedOutput()
	out = string(b)
	i := strings.Index(out, "STARTUP ")
	if err != nil || i < 0 {
		if strings.Contains(out, "Operation not permitted") || strings.Contains(out, "unshare:") {
			return nil, out, false, true
		}
		return nil, out, false, false
	}
	line := out[i+len("STARTUP "):]
	if j := strings.Index(line, "\n"); j >= 0 {
		line = line[:j]
	}
	got = map[string]string{}
	if err := json.Unmarshal([]byte(line), &got); err != nil {
		return nil, out, false, false
	}
	return got, out, true, false
}

// vAnnouncedVersion tells which of the given versions the announcements of a started program correspond to (record lengths,
// output base path, triangle configuration), 0 if none.
func vAnnouncedVersion(got map[string]string, versions ...int) (int, string) {
	var st ServerStatus
	var ws WritingState
	var tc TriangleSourceConfig
	json.Unmarshal([]byte(got["STATUS"]), &st)
	json.Unmarshal([]byte(got["WRITING"]), &ws)
	json.Unmarshal([]byte(got["TRIANGLE"]), &tc)
	desc := fmt.Sprintf("record lengths %d/%d, base path %q, triangle %+v", st.Npresamp, st.Nsamples, ws.BasePath, tc)
	for _, v := range versions {
		w := vVersionValues(v)
		es := w["STATUS"].(ServerStatus)
		ew := w["WRITING"].(*WritingState)
		et := w["TRIANGLE"].(*TriangleSourceConfig)
		if st.Npresamp == es.Npresamp && st.Nsamples == es.Nsamples && ws.BasePath == ew.BasePath &&
			tc.Nchan == et.Nchan && tc.SampleRate == et.SampleRate && tc.Min == et.Min && tc.Max == et.Max {
			return v, desc
		}
	}
	return 0, desc
}

// vRunStartup: version 1, then version N of every persistent topic is saved by the real saveState in a child; then the
// real program starts from that HOME in a private network namespace and must announce exactly those values.
func vRunStartup(c *vCase) {
	bin := os.Getenv("VERIF_EXTRA_BIN")
	if bin == "" {
		c.Cov("startup_family_skipped", 1)
		return
	}
	if _, err := exec.LookPath("unshare"); err != nil {
		c.Cov("startup_family_skipped", 1)
		return
	}
	ver := 2 + c.R.Intn(30)
	c.Describe("startup: version %d seed %d idx %d", ver, c.Seed, c.Idx)
	home := filepath.Join(c.Dir, "home")
	os.MkdirAll(home, 0o755)
	cmd := exec.Command(os.Args[0], "-test.run", "^TestVerif$")
	cmd.Env = append(os.Environ(), "VERIF_CHILD=crash", "VERIF_KILL_AT=none", fmt.Sprintf("VERIF_V2=%d", ver), "HOME="+home, "VERIF_PROP=C16")
	if out, err := cmd.CombinedOutput(); err != nil {
		c.Inconclusive("child", "saving child failed: %v %s", err, vTrim(string(out), 500))
		return
	}
	os.Remove(filepath.Join(home, ".dastard", "v1ready"))
	os.Remove(filepath.Join(home, ".dastard", "v2done"))
	sh := fmt.Sprintf("ip link set lo up && exec %q -test.run '^TestVerif$'", os.Args[0])
	cmd = exec.Command("unshare", "-n", "sh", "-c", sh)
	cmd.Env = append(os.Environ(), "VERIF_CHILD=startup", "HOME="+home, "VERIF_PROP=C16", "VERIF_EXTRA_BIN="+bin)
	out, err := cmd.CombinedOutput()
	i := strings.Index(string(out), "STARTUP ")
	if err != nil || i < 0 {
		if strings.Contains(string(out), "Operation not permitted") || strings.Contains(string(out), "unshare:") {
			c.Cov("startup_family_skipped", 1) // no private network namespace available here
			return
		}
		c.Inconclusive("child", "start-up child failed: %v %s", err, vTrim(string(out), 800))
		return
	}
	line := string(out)[i+len("STARTUP "):]
	if j := strings.Index(line, "\n"); j >= 0 {
		line = line[:j]
	}
	got := map[string]string{}
	if err := json.Unmarshal([]byte(line), &got); err != nil {
		c.Inconclusive("child", "cannot parse the start-up child's output: %v", err)
		return
	}
	want := vVersionValues(ver)
	same := func(topic string, into, exp any) bool {
		body, ok := got[topic]
		if !ok {
			c.Violate("c16:startup-missing-"+strings.ToLower(topic), "the restarted program did not announce topic %s (it announced %d topics); the configuration file held it", topic, len(got))
			return false
		}
		if err := json.Unmarshal([]byte(body), into); err != nil {
			c.Violate("c16:startup-unparsable-"+strings.ToLower(topic), "topic %s announced by the restarted program: %v: %s", topic, err, vTrim(body, 200))
			return false
		}
		gj, _ := json.Marshal(reflect.ValueOf(into).Elem().Interface())
		ej, _ := json.Marshal(exp)
		if strings.ReplaceAll(string(gj), "null", "[]") != strings.ReplaceAll(string(ej), "null", "[]") {
			c.Violate("c16:startup-"+strings.ToLower(topic), "after a restart the program announces %s = %s, the saved configuration was %s", topic, vTrim(string(gj), 400), vTrim(string(ej), 400))
			return false
		}
		c.Cov("startup_topics_compared", 1)
		return true
	}
	var tr TriangleSourceConfig
	var sp SimPulseSourceConfig
	var ro RoachSourceConfig
	if !same("TRIANGLE", &tr, *want["TRIANGLE"].(*TriangleSourceConfig)) || !same("SIMPULSE", &sp, *want["SIMPULSE"].(*SimPulseSourceConfig)) ||
		!same("ROACH", &ro, *want["ROACH"].(*RoachSourceConfig)) {
		return
	}
	var ab AbacoSourceConfig
	if body, ok := got["ABACO"]; ok && json.Unmarshal([]byte(body), &ab) == nil {
		ab.AvailableCards = nil
		ea := *want["ABACO"].(*AbacoSourceConfig)
		gj, _ := json.Marshal(ab)
		ej, _ := json.Marshal(ea)
		if strings.ReplaceAll(string(gj), "null", "[]") != strings.ReplaceAll(string(ej), "null", "[]") {
			c.Violate("c16:startup-abaco", "after a restart the program announces ABACO = %s, the saved configuration was %s", gj, ej)
			return
		}
		c.Cov("startup_topics_compared", 1)
	} else {
		c.Violate("c16:startup-missing-abaco", "the restarted program did not announce topic ABACO")
		return
	}
	var la LanceroSourceConfig
	if body, ok := got["LANCERO"]; ok && json.Unmarshal([]byte(body), &la) == nil {
		la.DastardOutput = LanceroDastardOutputJSON{}
		el := *want["LANCERO"].(*LanceroSourceConfig)
		gj, _ := json.Marshal(la)
		ej, _ := json.Marshal(el)
		if strings.ReplaceAll(string(gj), "null", "[]") != strings.ReplaceAll(string(ej), "null", "[]") {
			c.Violate("c16:startup-lancero", "after a restart the program announces LANCERO = %s, the saved configuration was %s", gj, ej)
			return
		}
		c.Cov("startup_topics_compared", 1)
	} else {
		c.Violate("c16:startup-missing-lancero", "the restarted program did not announce topic LANCERO")
		return
	}
	var st ServerStatus
	if body, ok := got["STATUS"]; ok && json.Unmarshal([]byte(body), &st) == nil {
		es := want["STATUS"].(ServerStatus)
		if st.Npresamp != es.Npresamp || st.Nsamples != es.Nsamples {
			c.Violate("c16:startup-record-lengths", "after a restart the record lengths are %d/%d, saved were %d/%d", st.Npresamp, st.Nsamples, es.Npresamp, es.Nsamples)
			return
		}
		c.Cov("startup_topics_compared", 1)
	} else {
		c.Violate("c16:startup-missing-status", "the restarted program did not announce topic STATUS")
		return
	}
	var ws WritingState
	if body, ok := got["WRITING"]; ok && json.Unmarshal([]byte(body), &ws) == nil {
		if ws.BasePath != want["WRITING"].(*WritingState).BasePath {
			c.Violate("c16:startup-basepath", "after a restart the output base path is %q, saved was %q", ws.BasePath, want["WRITING"].(*WritingState).BasePath)
			return
		}
		c.Cov("startup_topics_compared", 1)
	} else {
		c.Violate("c16:startup-missing-writing", "the restarted program did not announce topic WRITING")
		return
	}
	// trigger settings: announced once a source runs
	if e, bad := got["__start_error"]; bad {
		c.Violate("c16:startup-source", "the restarted program could not start the triangle source with the restored configuration: %s", e)
		return
	}
	var fts []FullTriggerState
	if body, ok := got["TRIGGER"]; !ok || json.Unmarshal([]byte(body), &fts) != nil {
		c.Violate("c16:startup-missing-trigger", "the restarted program announced no TRIGGER state after starting a source")
		return
	}
	perch := map[int]TriggerState{}
	for _, f := range fts {
		for _, ch := range f.ChannelIndices {
			perch[ch] = f.TriggerState
		}
	}
	for _, e := range want["TRIGGER"].([]FullTriggerState) {
		for _, ch := range e.ChannelIndices {
			g, ok := perch[ch]
			if !ok || g.AutoTrigger != e.AutoTrigger || g.AutoDelay != e.AutoDelay || g.EdgeTrigger != e.EdgeTrigger || g.EdgeLevel != e.EdgeLevel ||
				g.EdgeRising != e.EdgeRising || g.LevelTrigger != e.LevelTrigger || g.LevelLevel != e.LevelLevel {
				c.Violate("c16:startup-trigger", "after a restart channel %d runs with trigger settings %+v, saved were %+v", ch, g, e.TriggerState)
				return
			}
			c.Cov("startup_trigger_channels", 1)
		}
	}
	c.Cov("startups_of_the_real_program", 1)
	c.Nontrivial()
}

// vResaveChild: the next run after a killed save: read the configuration, change every topic, save.
func vResaveChild() {
	home, _ := os.UserHomeDir()
	cfg := filepath.Join(home, ".dastard", "config.yaml")
	viper.Reset()
	viper.SetConfigFile(cfg)
	if err := viper.ReadInConfig(); err != nil {
		fmt.Println("CHILD-ERROR", err)
		os.Exit(3)
	}
	last := map[string]interface{}{}
	for k, v := range vVersionValues(3) {
		last[k] = v
	}
	saveState(last)
	os.Exit(0)
}

// vCrashChild runs in the re-executed test binary.
func vCrashChild() {
	runtime.LockOSThread() // all file-system calls of the saves come from one thread (strace counts per thread)
	home, _ := os.UserHomeDir()
	dir := filepath.Join(home, ".dastard")
	os.MkdirAll(dir, 0o755)
	cfg := filepath.Join(dir, "config.yaml")
	// the file the first save finds: a small one, or (VERIF_EMPTY_FIRST) the zero-length file that start-up creates when
	// there was none. A hard link to it is the witness: a save that is safe against a crash never writes into the
	// file that is there (whatever a crash in the middle of such a write leaves is neither the old nor the new version).
	first := []byte("verbose: false\n")
	if os.Getenv("VERIF_EMPTY_FIRST") == "1" {
		first = []byte{}
	}
	os.WriteFile(cfg, first, 0o644)
	witness := filepath.Join(dir, "witness-of-first")
	os.Remove(witness)
	linked := os.Link(cfg, witness) == nil
	viper.Reset()
	viper.SetConfigFile(cfg)
	if err := viper.ReadInConfig(); err != nil {
		fmt.Println("CHILD-ERROR", err)
		os.Exit(3)
	}
	last := map[string]interface{}{}
	for k, v := range vVersionValues(1) {
		last[k] = v
	}
	saveState(last)
	if linked {
		if b, err := os.ReadFile(witness); err == nil && !bytes.Equal(b, first) {
			fmt.Printf("CHILD-INPLACE the first save wrote %d bytes into the existing %d-byte configuration file instead of replacing it\n", len(b), len(first))
		} else if err == nil {
			fmt.Println("CHILD-FIRST-SAVE-REPLACED")
		}
		os.Remove(witness)
	}
	saveState(last) // a second save, so that a .bak of version 1 exists
	os.WriteFile(filepath.Join(dir, "v1ready"), []byte("ok"), 0o644)
	v2 := 2
	fmt.Sscan(os.Getenv("VERIF_V2"), &v2)
	for k, v := range vVersionValues(v2) {
		last[k] = v
	}
	killAt := os.Getenv("VERIF_KILL_AT")
	verifInstall(&verifHandlers{Point: func(name string) {
		if name == killAt {
			syscall.Kill(os.Getpid(), syscall.SIGKILL)
			time.Sleep(10 * time.Second)
		}
	}})
	saveState(last)
	os.WriteFile(filepath.Join(dir, "v2done"), []byte("ok"), 0o644)
	os.Exit(0)
}

func vRunCrash(c *vCase) {
	point := vSavePoints[c.Idx/4%len(vSavePoints)]
	if c.R.Intn(6) == 0 {
		point = "none"
	}
	emptyFirst := c.R.Intn(2)
	c.Describe("crash: kill at %s seed %d idx %d, first file empty %d", point, c.Seed, c.Idx, emptyFirst)
	home := filepath.Join(c.Dir, "home")
	os.MkdirAll(home, 0o755)
	cmd := exec.Command(os.Args[0], "-test.run", "^TestVerif$")
	cmd.Env = append(os.Environ(), "VERIF_CHILD=crash", "VERIF_KILL_AT="+point, "HOME="+home, "VERIF_PROP=C16", fmt.Sprintf("VERIF_EMPTY_FIRST=%d", emptyFirst))
	out, err := cmd.CombinedOutput()
	dir := filepath.Join(home, ".dastard")
	if i := strings.Index(string(out), "CHILD-INPLACE"); i >= 0 {
		c.Violate("c16:save-in-place", "%s (first file empty: %v)", vTrim(string(out)[i:], 300), emptyFirst == 1)
		return
	}
	if strings.Contains(string(out), "CHILD-FIRST-SAVE-REPLACED") {
		c.Cov(fmt.Sprintf("first_saves_seen_replacing_the_file_empty_%d", emptyFirst), 1)
	}
	killed := false
	if ee, ok := err.(*exec.ExitError); ok {
		if ws, ok := ee.Sys().(syscall.WaitStatus); ok && ws.Signaled() && ws.Signal() == syscall.SIGKILL {
			killed = true
		}
	}
	if _, e := os.Stat(filepath.Join(dir, "v1ready")); e != nil {
		c.Inconclusive("child", "the child did not reach 'version 1 saved': %v\n%s", err, vTrim(string(out), 1500))
		return
	}
	if point != "none" && !killed {
		c.Inconclusive("child", "the child was not killed at %s (err %v)\n%s", point, err, vTrim(string(out), 800))
		return
	}
	c.Cov("kills_at_"+point, 1)
	vCheckAfterKill(c, dir, point, point == "none", c.Idx%3 == 0 && (point == "save.begin" || point == "save.tmpWritten" || point == "save.bakRemoved"))
}

// vCheckAfterKill inspects ~/.dastard before any start-up code has run.
func vCheckAfterKill(c *vCase, dir, point string, completed, realStart bool) {
	ents, _ := os.ReadDir(dir)
	var names []string
	for _, en := range ents {
		if en.Name() != "v1ready" && en.Name() != "v2done" {
			names = append(names, en.Name())
		}
	}
	sort.Strings(names)
	c.Distinct("directory_state", strings.Join(names, ","))
	// what the next start-up reads: ~/.dastard/config.yaml, before any start-up code has run
	cfg := filepath.Join(dir, "config.yaml")
	st, e := os.Stat(cfg)
	if e != nil {
		c.Violate("c16:crash-config-missing", "killed at %s: the configuration file the next start-up reads does not exist; the directory holds %v", point, names)
		return
	}
	if st.Size() == 0 {
		c.Violate("c16:crash-config-empty", "killed at %s: the configuration file is empty; the directory holds %v", point, names)
		return
	}
	probe1, probe2 := &vCase{}, &vCase{}
	probe1.res.Kind, probe2.res.Kind = "held", "held"
	is1 := vPersistCompare(probe1, cfg, vVersionValues(1), "")
	is2 := vPersistCompare(probe2, cfg, vVersionValues(2), "")
	if !is1 && !is2 {
		b, _ := os.ReadFile(cfg)
		c.Violate("c16:crash-config-mixed", "killed at %s: the configuration file is neither the complete old nor the complete new version (%s / %s); directory %v; file:\n%s",
			point, probe1.res.Detail, probe2.res.Detail, names, vTrim(string(b), 1200))
		return
	}
	if completed && !is2 {
		c.Violate("c16:save-lost", "a completed save left the old version in the configuration file; directory %v", names)
		return
	}
	if is1 {
		c.Cov("survived_as_old_version", 1)
	} else {
		c.Cov("survived_as_new_version", 1)
	}
	// the next start-up of the real program (its own start-up code included), on a copy of what the kill left behind:
	// it must come up with the complete old or the complete new configuration
	if realStart {
		chome := filepath.Join(c.Dir, fmt.Sprintf("after_kill_%d", c.Idx))
		os.RemoveAll(chome)
		os.MkdirAll(filepath.Join(chome, ".dastard"), 0o755)
		for _, en := range ents {
			if b, err := os.ReadFile(filepath.Join(dir, en.Name())); err == nil {
				os.WriteFile(filepath.Join(chome, ".dastard", en.Name()), b, 0o644)
				if st, err := os.Stat(filepath.Join(dir, en.Name())); err == nil {
					os.Chtimes(filepath.Join(chome, ".dastard", en.Name()), st.ModTime(), st.ModTime())
				}
			}
		}
		got, out, ok, skipped := vStartReal(chome)
		switch {
		case skipped:
			c.Cov("startup_family_skipped", 1)
		case !ok:
			c.Violate("c16:start-up-after-kill-failed", "killed at %s: the real program did not start up from the directory the kill left behind (%v): %s", point, names, vTrim(out, 600))
			return
		default:
			if v, desc := vAnnouncedVersion(got, 1, 2); v == 0 {
				c.Violate("c16:start-up-after-kill", "killed at %s: the real program started from the directory the kill left behind (%v) announces neither the old nor the new configuration: %s", point, names, desc)
				return
			}
			c.Cov("real_startups_after_a_kill", 1)
		}
		os.RemoveAll(chome)
	}
	// the next run: it must be able to save again, whatever the killed save left lying around
	home := filepath.Dir(dir)
	cmd := exec.Command(os.Args[0], "-test.run", "^TestVerif$")
	cmd.Env = append(os.Environ(), "VERIF_CHILD=resave", "HOME="+home, "VERIF_PROP=C16")
	if out, err := cmd.CombinedOutput(); err != nil {
		c.Violate("c16:next-run-cannot-read-config", "killed at %s: the next run could not read the configuration and save: %v %s (directory %v)", point, err, vTrim(string(out), 400), names)
		return
	}
	probe3 := &vCase{}
	probe3.res.Kind = "held"
	if !vPersistCompare(probe3, cfg, vVersionValues(3), "") {
		ents2, _ := os.ReadDir(dir)
		var names2 []string
		for _, en := range ents2 {
			names2 = append(names2, en.Name())
		}
		c.Violate("c16:save-after-crash-lost", "killed at %s, then the next run changed every persistent topic and saved: the configuration file does not hold the new values (%s); directory after the kill %v, now %v",
			point, probe3.res.Detail, names, names2)
		return
	}
	c.Cov("saves_after_a_killed_save", 1)
	c.Nontrivial()
}

// ---------------------------------------------------------------- syscall-level kill points (strace as injector)

type vKillPoint struct {
	name    string
	ordinal int
	what    string
}

var vKillPoints []vKillPoint
var vStraceErr error

// vFindKillPoints traces one complete child run and lists every file-system call between the
// "version 1 saved" marker and the "version 2 saved" marker as (syscall, per-thread ordinal).
func vFindKillPoints(dir string) {
	if _, err := exec.LookPath("strace"); err != nil {
		vStraceErr = err
		return
	}
	home := filepath.Join(dir, "ref-home")
	os.MkdirAll(home, 0o755)
	tr := filepath.Join(dir, "ref-trace.txt")
	cmd := exec.Command("strace", "-f", "-qq", "-o", tr, "-e", "trace=openat,write,close,unlinkat,linkat,renameat,renameat2,fsync,unlink,rename,link,ftruncate", os.Args[0], "-test.run", "^TestVerif$")
	cmd.Env = append(os.Environ(), "VERIF_CHILD=crash", "VERIF_KILL_AT=none", "HOME="+home, "VERIF_PROP=C16")
	if out, err := cmd.CombinedOutput(); err != nil {
		vStraceErr = fmt.Errorf("reference trace failed: %v %s", err, vTrim(string(out), 300))
		return
	}
	b, err := os.ReadFile(tr)
	if err != nil {
		vStraceErr = err
		return
	}
	re := regexp.MustCompile(`^(\d+)\s+(\w+)\((.*)`)
	counts := map[string]int{} // tid/name -> ordinal
	mainTid := ""
	after := false
	for _, line := range strings.Split(string(b), "\n") {
		m := re.FindStringSubmatch(line)
		if m == nil {
			continue
		}
		tid, name, rest := m[1], m[2], m[3]
		counts[tid+"/"+name]++
		if strings.Contains(rest, "/v1ready") {
			after, mainTid = true, tid
			continue
		}
		if !after || tid != mainTid {
			continue
		}
		vKillPoints = append(vKillPoints, vKillPoint{name, counts[tid+"/"+name], vTrim(name+"("+rest, 120)})
		if strings.Contains(rest, "/v2done") {
			break
		}
	}
	if len(vKillPoints) == 0 {
		vStraceErr = fmt.Errorf("no file-system calls found between the markers in the reference trace")
	}
}

func vRunCrashSys(c *vCase) {
	if vStraceErr != nil || len(vKillPoints) == 0 {
		c.Inconclusive("strace", "syscall-level kill enumeration not available: %v", vStraceErr)
		return
	}
	kp := vKillPoints[(c.Idx/4)%len(vKillPoints)]
	c.Describe("crash: SIGKILL on entry to %s #%d [%s]", kp.name, kp.ordinal, kp.what)
	home := filepath.Join(c.Dir, "home")
	os.MkdirAll(home, 0o755)
	cmd := exec.Command("strace", "-f", "-qq", "-o", "/dev/null", "-e", "trace="+kp.name, "-e", fmt.Sprintf("inject=%s:signal=SIGKILL:when=%d", kp.name, kp.ordinal), os.Args[0], "-test.run", "^TestVerif$")
	cmd.Env = append(os.Environ(), "VERIF_CHILD=crash", "VERIF_KILL_AT=none", "HOME="+home, "VERIF_PROP=C16")
	out, err := cmd.CombinedOutput()
	dir := filepath.Join(home, ".dastard")
	if _, e := os.Stat(filepath.Join(dir, "v1ready")); e != nil {
		c.Cov("syscall_kills_before_marker_discarded", 1)
		return
	}
	if err == nil {
		c.Cov("syscall_kills_missed", 1) // the call migrated to another thread: nothing was killed
		return
	}
	_ = out
	c.Cov("syscall_kills", 1)
	c.Distinct("syscall_kill_point", fmt.Sprintf("%s#%d", kp.name, kp.ordinal))
	vCheckAfterKill(c, dir, fmt.Sprintf("entry to %s #%d [%s]", kp.name, kp.ordinal, kp.what), false, (c.Idx/4/len(vKillPoints))%2 == 0)
}

func vRunStatus(c *vCase) {
	e := &vSE
	if !e.ok {
		c.Inconclusive("setup", "status environment not available: %v", e.err)
		return
	}
	if c.Idx%17 == 16 { // 17 is coprime with the shard counts: the (slow) start-ups spread over all shards
		vRunStartup(c)
		return
	}
	switch c.Idx % 4 {
	case 0:
		vRunReplay(c)
	case 1:
		vRunPersist(c)
	case 2:
		vRunCrash(c)
	case 3:
		vRunCrashSys(c)
	}
}

func init() {
	vRegister("C16", &vProp{
		Cases: func(tier string) int {
			if tier == "thorough" {
				return 4000
			}
			return 320
		},
		Setup: vStatusSetup,
		Run:   vRunStatus,
		Meta: vMeta{Level: "fault_enumeration",
			Rule: "four case families. replay: 1-3 goroutines push 5-60 updates (the real topics with values of the real persisted types, synthetic topics, 25 % republished earlier values) into the real RunClientUpdater, then FENCE_A, SENDALL, FENCE_B; the SUB socket's record is the linearisation and the replay between the fences must contain every topic published so far in this process exactly once with its latest body (NEWDASTARD, which the code documents as stateless, excepted). persist: 3-25 updates of the persistent topics (plus unchanged republications and non-persistent traffic), then the file written by the real saveState (delay 25 ms via hook) is read back by a fresh viper with UnmarshalKey into the start-up types and compared with the latest values (source configurations, record lengths, trigger settings except edge-multi, output base path, map file). crash: a child process saves version 1 twice, changes all persistent topics and is SIGKILLed by the hook at one of the five points between saveState's file-system steps (or not at all), and, with strace as the injector, on entry to each file-system call (openat, write, close, unlinkat, linkat, renameat) the final save makes; the parent checks that ~/.dastard/config.yaml exists, is non-empty, parses and equals version 1 or version 2 completely; non-trivial = case completed; after half of the syscall kills and a third of the early hook kills the real program is also started on a copy of the directory the kill left behind; the configuration file the process starts from holds trigger settings of an earlier run (TRIGGER is published only while a source runs): until that topic is first published in the process, every persist history also requires the saved file to still hold them",
			Assumptions: []string{"libzmq delivers in order on one connection and loses nothing once the subscription is established (receive high-water mark 0)", "a process kill, not a power loss: data written before the kill are in the page cache",
				"edge-multi settings are documented as not restored", "NEWDASTARD is an announcement the code documents as not stored"},
			Guards: map[string]map[string]int{
				"quick":    {"replays": 60, "replayed_messages": 1000, "republished_values": 200, "persist_histories": 60, "persist_histories_ending_with_unsaved_topic": 15, "restored_topics_compared": 300, "kills_at_save.begin": 8, "kills_at_save.tmpWritten": 8, "kills_at_save.bakRemoved": 8, "kills_at_save.mainMoved": 8, "kills_at_save.done": 8, "survived_as_old_version": 10, "survived_as_new_version": 10, "syscall_kills": 30, "startups_of_the_real_program": 8, "real_startups_after_a_kill": 10, "saves_after_a_killed_save": 60, "trigger_restores_in_fresh_process": 20, "distinct:syscall_kill_point": 8},
				"thorough": {"replays": 800, "persist_histories": 800},
			}},
	})
}
