package PKGNAME

// C07: file writing is record-atomic and order-preserving under any disk timing.
// Layer 1: asyncbufio.Writer over a gated in-memory writer (the "disk" blocks on command).
// Layer 2: the real LJH2.2 / LJH3 / OFF writers with FileName pointing at a named pipe
// whose read end the harness drains according to a stall script.

import (
	"bytes"
	"encoding/binary"
	"fmt"
	"io"
	"path/filepath"
	"sync"
	"sync/atomic"
	"syscall"
	"time"
	"unsafe"

	"github.com/usnistgov/dastard/asyncbufio"
	"github.com/usnistgov/dastard/ljh"
	"github.com/usnistgov/dastard/off"
	"gonum.org/v1/gonum/mat"
)

type vGate struct {
	mu      sync.Mutex
	cond    *sync.Cond
	open    bool
	got     []byte
	waiting bool
	calls   int
}

func newGate() *vGate {
	g := &vGate{open: true}
	g.cond = sync.NewCond(&g.mu)
	return g
}

func (g *vGate) Write(p []byte) (int, error) {
	g.mu.Lock()
	defer g.mu.Unlock()
	g.calls++
	for !g.open {
		g.waiting = true
		g.cond.Wait()
	}
	g.waiting = false
	g.got = append(g.got, p...)
	return len(p), nil
}

func (g *vGate) set(open bool) {
	g.mu.Lock()
	g.open = open
	g.mu.Unlock()
	g.cond.Broadcast()
}

func (g *vGate) snapshot() (b []byte, waiting bool) {
	g.mu.Lock()
	defer g.mu.Unlock()
	return append([]byte(nil), g.got...), g.waiting
}

func vPayload(id, n int) []byte {
	p := make([]byte, n)
	for i := range p {
		p[i] = byte(id*131 + i*7 + (i >> 8))
	}
	if n >= 4 {
		binary.LittleEndian.PutUint32(p, uint32(id))
	}
	return p
}

func vRunStallLayer1(c *vCase) bool {
	r := c.R
	g := newGate()
	depth := vPick(r, 1, 2, 3, 8, 64, 1000)
	interval := vPick(r, time.Hour, time.Millisecond, 200*time.Microsecond)
	aw := asyncbufio.NewWriter(g, depth, interval)
	var accepted bytes.Buffer
	nops := 30 + r.Intn(300)
	if depth == 1000 {
		nops = 1500 + r.Intn(1500)
	}
	id := 0
	rejected, flushStalled := 0, 0
	firstRejectAfter := -1
	naccepted := 0
	var longStall time.Duration
	if c.Idx%8 == 5 {
		longStall = time.Duration(vPick(r, 1100, 2300, 3400, 5600)) * time.Millisecond
	}
	checkAll := func(what string) bool {
		got, _ := g.snapshot()
		want := accepted.Bytes()
		if !bytes.Equal(got, want) {
			k := 0
			for k < len(got) && k < len(want) && got[k] == want[k] {
				k++
			}
			c.Violate("c07:l1-"+what, "asyncbufio depth %d: when %s returned the underlying writer had %d bytes, accepted so far %d bytes; first difference at byte %d (loss, duplication, reordering, or data not yet written)", depth, what, len(got), len(want), k)
			return false
		}
		return true
	}
	for op := 0; op < nops; op++ {
		switch k := r.Intn(20); {
		case k < 14:
			n := vPick(r, 1, 8, 24, 200, 1016, 4096, 5000, 9000)
			p := vPayload(id, n)
			id++
			m, err := aw.Write(p)
			if err == nil {
				if m != n {
					c.Violate("c07:l1-short-accept", "Write(%d) returned %d with nil error", n, m)
					return false
				}
				accepted.Write(p)
				naccepted++
			} else {
				rejected++
				if firstRejectAfter < 0 {
					firstRejectAfter = naccepted
				}
			}
		case k < 16:
			g.set(false)
			c.Cov("l1_stalls", 1)
		case k < 18:
			g.set(true)
		case k == 19:
			// a Flush is stalled at the disk; records are accepted meanwhile; the disk recovers; the NEXT Flush must bring them out
			p0 := vPayload(id, 24)
			id++
			if _, err := aw.Write(p0); err != nil {
				rejected++
				continue
			}
			accepted.Write(p0)
			naccepted++
			g.set(false)
			done := make(chan struct{})
			go func() { aw.Flush(); close(done) }()
			for i := 0; i < 400; i++ { // wait until the flush is really waiting at the gate
				if _, w := g.snapshot(); w {
					break
				}
				time.Sleep(50 * time.Microsecond)
			}
			for j := 0; j < 1+r.Intn(3); j++ {
				p := vPayload(id, vPick(r, 8, 24, 200))
				id++
				if _, err := aw.Write(p); err == nil {
					accepted.Write(p)
					naccepted++
				} else {
					rejected++
				}
			}
			g.set(true)
			select {
			case <-done:
			case <-time.After(20 * time.Second):
				c.Inconclusive("slow:c07", "stalled Flush did not return within 20 s after the gate opened")
				return false
			}
			if !vWatched(c, "asyncbufio.Flush", 20*time.Second, func() { aw.Flush() }) {
				return false
			}
			if !checkAll("Flush-after-stalled-Flush") {
				return false
			}
			c.Cov("l1_flush_after_stalled_flush", 1)
		default:
			_, waiting := g.snapshot()
			g.mu.Lock()
			closed := !g.open
			g.mu.Unlock()
			if closed {
				if waiting {
					flushStalled++
				}
				d := time.Duration(200+r.Intn(2000)) * time.Microsecond
				if longStall > 0 {
					// a disk that hangs for seconds (longer than any plausible internal timeout): Flush must still mean "everything is out"
					d, longStall = longStall, 0
					c.Cov("l1_flush_stalled_for_seconds", 1)
				}
				go func() { time.Sleep(d); g.set(true) }()
			}
			if !vWatched(c, "asyncbufio.Flush", 20*time.Second, func() { aw.Flush() }) {
				g.set(true)
				return false
			}
			if !checkAll("Flush") {
				return false
			}
			c.Cov("l1_flushes", 1)
		}
	}
	g.set(true)
	if !vWatched(c, "asyncbufio.Close", 20*time.Second, func() { aw.Close() }) {
		return false
	}
	if !checkAll("Close") {
		return false
	}
	c.Cov("l1_accepted", naccepted)
	c.Cov("l1_rejected", rejected)
	c.Cov("l1_flush_while_stalled", flushStalled)
	if rejected > 0 {
		c.Cov("l1_cases_with_rejection", 1)
		c.Distinct("l1_first_reject_after", firstRejectAfter)
	}
	return true
}

// ---- layer 2

func vFcntl(fd uintptr, cmd, arg int) (int, error) {
	r, _, e := syscall.Syscall(syscall.SYS_FCNTL, fd, uintptr(cmd), uintptr(arg))
	if e != 0 {
		return 0, e
	}
	return int(r), nil
}

func vPipeUnread(fd uintptr) int {
	var n int32
	syscall.Syscall(syscall.SYS_IOCTL, fd, 0x541B /* FIONREAD */, uintptr(unsafe.Pointer(&n)))
	return int(n)
}

type vPipeSink struct {
	fd     int
	mu     sync.Mutex
	got    []byte
	done   chan struct{}
	drain  chan struct{}
	once   sync.Once
	closed bool  // set by the harness once the writer has closed its end
	slow   int32 // 1: the consumer reads 4 KiB every 150 us
}

// newPipeSink creates the FIFO and opens its read end (raw, non-blocking). The consumer goroutine
// reads under the mutex, so at any instant every byte written to the pipe is either still in the
// pipe (FIONREAD) or in got: total() is exact.
func newPipeSink(path string) (*vPipeSink, error) {
	if err := syscall.Mkfifo(path, 0o644); err != nil {
		return nil, err
	}
	fd, err := syscall.Open(path, syscall.O_RDONLY|syscall.O_NONBLOCK, 0)
	if err != nil {
		return nil, err
	}
	vFcntl(uintptr(fd), 1031 /* F_SETPIPE_SZ */, 4096)
	s := &vPipeSink{fd: fd, done: make(chan struct{}), drain: make(chan struct{})}
	go func() {
		defer close(s.done)
		<-s.drain
		buf := make([]byte, 1<<16)
		for {
			rb := buf
			if atomic.LoadInt32(&s.slow) == 1 {
				rb = buf[:4096] // a disk slower than the acquisition: the queue hovers around full
				time.Sleep(150 * time.Microsecond)
			}
			s.mu.Lock()
			n, _ := syscall.Read(s.fd, rb)
			if n > 0 {
				s.got = append(s.got, buf[:n]...)
			}
			fin := n <= 0 && s.closed
			s.mu.Unlock()
			if fin {
				return
			}
			if n <= 0 {
				time.Sleep(100 * time.Microsecond)
			}
		}
	}()
	return s, nil
}

// release lets the consumer read from now on.
func (s *vPipeSink) release() { s.once.Do(func() { close(s.drain) }) }

// total returns the number of bytes written to the pipe so far (consumed + still unread).
func (s *vPipeSink) total() int {
	s.mu.Lock()
	defer s.mu.Unlock()
	return len(s.got) + vPipeUnread(uintptr(s.fd))
}

func (s *vPipeSink) markClosed() { s.mu.Lock(); s.closed = true; s.mu.Unlock() }

type vStallWriter interface {
	write(id int) error
	flush()
	close()
	recSize() int      // size of an ordinary record
	sizeOf(id int) int // size of record id (LJH3 records may differ in length)
}

type vStall22 struct {
	w *ljh.Writer
	n int
}

func (s *vStall22) write(id int) error {
	d := make([]uint16, s.n)
	for i := range d {
		d[i] = uint16(id*31 + i)
	}
	return s.w.WriteRecord(int64(id), int64(id)*1000+7, d)
}
func (s *vStall22) flush()         { s.w.Flush() }
func (s *vStall22) close()         { s.w.Close() }
func (s *vStall22) recSize() int   { return 16 + 2*s.n }
func (s *vStall22) sizeOf(int) int { return s.recSize() }

type vStall3 struct {
	w     *ljh.Writer3
	n     int
	long  int // > 0: every seventh record has this many samples (LJH3 records carry their own length)
	every int // 0 = 7
}

func (s *vStall3) lenOf(id int) int {
	ev := 7
	if s.every > 0 {
		ev = s.every
	}
	if s.long > 0 && id%ev == 3%ev {
		return s.long
	}
	return s.n
}

func (s *vStall3) write(id int) error {
	d := make([]uint16, s.lenOf(id))
	for i := range d {
		d[i] = uint16(id*31 + i)
	}
	return s.w.WriteRecord(int32(1), int64(id), int64(id)*1000+7, d)
}
func (s *vStall3) flush()            { s.w.Flush() }
func (s *vStall3) close()            { s.w.Close() }
func (s *vStall3) recSize() int      { return 24 + 2*s.n }
func (s *vStall3) sizeOf(id int) int { return 24 + 2*s.lenOf(id) }

type vStallOFF struct {
	w  *off.Writer
	nb int
}

func (s *vStallOFF) write(id int) error {
	co := make([]float32, s.nb)
	for i := range co {
		co[i] = float32(id) + float32(i)/16
	}
	return s.w.WriteRecord(100, 10, int64(id), int64(id)*1000+7, float32(id), 0.5, 0.25, co)
}
func (s *vStallOFF) flush()         { s.w.Flush() }
func (s *vStallOFF) close()         { s.w.Close() }
func (s *vStallOFF) recSize() int   { return 36 + 4*s.nb }
func (s *vStallOFF) sizeOf(int) int { return s.recSize() }

func vRunStallLayer2(c *vCase) bool {
	r := c.R
	path := filepath.Join(c.Dir, "pipe")
	sink, err := newPipeSink(path)
	if err != nil {
		c.Inconclusive("setup", "mkfifo: %v", err)
		return false
	}
	kind := r.Intn(3)
	var sw vStallWriter
	var nsamp, nb int
	switch kind {
	case 0:
		nsamp = vPick(r, 4, 20, 100, 500)
		w := &ljh.Writer{ChannelIndex: 1, Presamples: 2, Samples: nsamp, FramesPerSample: 1, Timebase: 1e-5, TimestampOffset: time.Unix(vT0Unix, 0),
			NumberOfRows: 1, NumberOfColumns: 1, NumberOfChans: 1, SubframeDivisions: 1, FileName: path, ChanName: "chan1", ChannelNumberMatchingName: 1, SourceName: "Verif"}
		if err := w.CreateFile(); err != nil {
			c.Inconclusive("setup", "%v", err)
			return false
		}
		w.WriteHeader(time.Unix(vT0Unix, 0))
		sw = &vStall22{w, nsamp}
	case 1:
		nsamp = vPick(r, 4, 20, 100, 500)
		w := &ljh.Writer3{ChannelIndex: 1, Timebase: 1e-5, NumberOfRows: 1, NumberOfColumns: 1, FileName: path}
		if err := w.CreateFile(); err != nil {
			c.Inconclusive("setup", "%v", err)
			return false
		}
		w.WriteHeader()
		s3 := &vStall3{w: w, n: nsamp}
		if vChance(r, 0.5) {
			s3.long = vPick(r, 3000, 8192, 10000, 40000) // long records among short ones: a long one may meet a queue with little room left
			c.Cov("l2_ljh3_mixed_lengths", 1)
		}
		sw = s3
	case 2:
		nb = vPick(r, 1, 3, 8, 40)
		w := off.NewWriter(path, 1, "chan1", 1, 10, 100, 1e-5, mat.NewDense(nb, 2, make([]float64, 2*nb)), mat.NewDense(2, nb, make([]float64, 2*nb)), "m", "v", "g", "Verif",
			off.TimeDivisionMultiplexingInfo{}, off.PixelInfo{})
		if err := w.CreateFile(); err != nil {
			c.Inconclusive("setup", "%v", err)
			return false
		}
		w.WriteHeader()
		sw = &vStallOFF{w, nb}
	}
	// stall script
	preRelease := vPick(r, "never-stalled", "after-header", "after-some", "stalled")
	if preRelease == "never-stalled" {
		sink.release()
	}
	// "during-flush"/"during-close": the disk stays stalled, with the queue full, until Flush (Close) has been called
	// "slow-drain": after the first rejection the disk comes back but stays slower than the producer for a few thousand records
	releaseAt := vPick(r, "first-reject", "after-rejects", "partly-full", "during-flush", "during-close", "slow-drain", "slow-drain")
	if s3, ok := sw.(*vStall3); ok && releaseAt == "slow-drain" && s3.long > 0 {
		s3.every = 2 // every other record is a long one while the queue hovers around full
	}
	var accepted []int
	accBytes := 0 // total size of the accepted records
	id := 0
	rejects := 0
	firstRejectAfter := -1
	budget := 1000 + 90000/sw.recSize() + 400 // enough writes to fill pipe + buffers + a 1000-deep queue
	if preRelease == "after-some" {
		for i := 0; i < 5+r.Intn(50); i++ {
			if sw.write(id) == nil {
				accepted = append(accepted, id)
				accBytes += sw.sizeOf(id)
			}
			id++
		}
	}
	released := preRelease == "never-stalled"
	partlyAt := r.Intn(budget)
	// the budget fits the present writers (one queue slot per record); a writer that packs several records
	// into a slot needs more writes before the queue is full, so a stalled script keeps going until it sees a rejection
	needReject := releaseAt != "partly-full"
	for i := 0; i < budget || (!released && needReject && rejects == 0 && i < 300000); i++ {
		if released && releaseAt == "slow-drain" {
			time.Sleep(40 * time.Microsecond) // records keep coming at a finite rate while the slow disk frees one queue slot after the other
		}
		err := sw.write(id)
		if err == nil {
			accepted = append(accepted, id)
			accBytes += sw.sizeOf(id)
		} else {
			rejects++
			if firstRejectAfter < 0 {
				firstRejectAfter = len(accepted)
			}
		}
		id++
		if !released && rejects >= 1+(id%3) && (releaseAt == "during-flush" || releaseAt == "during-close") {
			break
		}
		if !released {
			if releaseAt == "slow-drain" && rejects == 1 {
				atomic.StoreInt32(&sink.slow, 1)
				sink.release()
				released = true
				budget = i + 4000 + r.Intn(2000)
				c.Cov("l2_slow_drain", 1)
				continue
			}
			if (releaseAt == "first-reject" && rejects == 1) || (releaseAt == "after-rejects" && rejects >= 5+r.Intn(20)) || (releaseAt == "partly-full" && i == partlyAt) {
				sink.release()
				released = true
				if releaseAt == "partly-full" && rejects == 0 {
					c.Cov("l2_released_partly_full", 1)
				}
				// keep producing for a while after the release
				budget = i + 50 + r.Intn(200)
			}
		}
	}
	atomic.StoreInt32(&sink.slow, 0)
	stalledOp := ""
	if !released {
		if rejects > 0 && (releaseAt == "during-flush" || releaseAt == "during-close") {
			stalledOp = releaseAt
			time.AfterFunc(time.Duration(20+r.Intn(60))*time.Millisecond, sink.release)
			c.Cov("l2_"+stalledOp+"_with_full_queue", 1)
		} else {
			sink.release()
		}
	}
	accAtFlush, flushSeen, accBytesAtFlush := -1, 0, 0
	if stalledOp != "during-close" {
		// flush (the consumer running, or released only while Flush waits): everything accepted so far must have reached the pipe
		if !vWatched(c, "writer.Flush", 30*time.Second, func() { sw.flush() }) {
			return false
		}
		accAtFlush = len(accepted)
		accBytesAtFlush = accBytes
		flushSeen = sink.total()
		// more records after the flush
		for i := 0; i < r.Intn(30); i++ {
			if sw.write(id) == nil {
				accepted = append(accepted, id)
			}
			id++
		}
	}
	if !vWatched(c, "writer.Close", 30*time.Second, func() { sw.close() }) {
		return false
	}
	sink.markClosed()
	select {
	case <-sink.done:
	case <-time.After(30 * time.Second):
		c.Inconclusive("pipe", "the consumer did not finish after Close")
		return false
	}
	syscall.Close(sink.fd)
	b := sink.got
	what := []string{"ljh22", "ljh3", "off"}[kind]
	var gotIDs []int
	hdrLen, trailing := 0, 0
	switch kind {
	case 0:
		f, err := vParseLJH22(b)
		if err != nil {
			c.Violate("c07:l2-header", "%s through a stalling pipe: %v", what, err)
			return false
		}
		hdrLen, trailing = f.headerLen, f.trailing
		for _, x := range f.recs {
			gotIDs = append(gotIDs, int(x.subframe))
			if x.timeUS != x.subframe*1000+7 || int(x.data[0]) != int(uint16(x.subframe*31)) {
				c.Violate("c07:l2-torn-record", "%s: record with frame %d has inconsistent time/samples: parts of different records were interleaved or lost", what, x.subframe)
				return false
			}
		}
	case 1:
		f, err := vParseLJH3(b)
		if err != nil {
			c.Violate("c07:l2-header", "%s through a stalling pipe: %v", what, err)
			return false
		}
		hdrLen, trailing = f.headerLen, f.trailing
		for _, x := range f.recs {
			gotIDs = append(gotIDs, int(x.frame))
			if x.timeUS != x.frame*1000+7 || len(x.data) != sw.(*vStall3).lenOf(int(x.frame)) || int(x.data[0]) != int(uint16(x.frame*31)) {
				c.Violate("c07:l2-torn-record", "%s: record with frame %d is torn (time %d, %d samples)", what, x.frame, x.timeUS, len(x.data))
				return false
			}
		}
	case 2:
		f, err := vParseOFF(b)
		if err != nil {
			c.Violate("c07:l2-header", "%s through a stalling pipe: %v", what, err)
			return false
		}
		hdrLen, trailing = f.headerLen, f.trailing
		for _, x := range f.recs {
			gotIDs = append(gotIDs, int(x.frame))
			if x.timeNS != x.frame*1000+7 || x.ptm != float32(x.frame) || x.coefs[0] != float32(x.frame) {
				c.Violate("c07:l2-torn-record", "%s: record with frame %d is torn", what, x.frame)
				return false
			}
		}
	}
	if trailing != 0 {
		c.Violate("c07:l2-partial-record", "%s (record %d bytes, stall script %s/%s): the byte stream ends with %d bytes that are not a whole record: %d whole records after a %d-byte header, %d accepted, %d rejected",
			what, sw.recSize(), preRelease, releaseAt, trailing, len(gotIDs), hdrLen, len(accepted), rejects)
		return false
	}
	if fmt.Sprint(gotIDs) != fmt.Sprint(accepted) {
		k := 0
		for k < len(gotIDs) && k < len(accepted) && gotIDs[k] == accepted[k] {
			k++
		}
		c.Violate("c07:l2-records", "%s (stall script %s/%s): file holds %d records, %d were accepted (WriteRecord returned nil); first difference at position %d", what, preRelease, releaseAt, len(gotIDs), len(accepted), k)
		return false
	}
	// the flush: everything accepted before Flush returned had reached the file (pipe) when it returned.
	if accAtFlush >= 0 && flushSeen < hdrLen+accBytesAtFlush {
		c.Violate("c07:l2-flush-incomplete", "%s: when Flush returned only %d bytes had reached the file, but the header (%d) and %d accepted records (%d bytes) had been written before", what, flushSeen, hdrLen, accAtFlush, accBytesAtFlush)
		return false
	}
	if accAtFlush >= 0 {
		c.Cov("l2_flush_checks", 1)
	}
	c.Cov("l2_accepted", len(accepted))
	c.Cov("l2_rejected", rejects)
	if rejects > 0 {
		c.Cov("l2_cases_with_rejection", 1)
		c.Distinct("l2_"+what+"_first_reject_after", firstRejectAfter)
	}
	c.Cov("l2_"+what, 1)
	c.Describe("l2 %s rec=%d %s/%s", what, sw.recSize(), preRelease, releaseAt)
	return true
}

var _ = io.EOF

func vRunC07(c *vCase) {
	r := c.R
	if c.Idx%4 != 3 {
		c.Describe("C07 l1 idx-derived %d", r.Int63())
		if !vRunStallLayer1(c) {
			return
		}
	} else {
		if !vRunStallLayer2(c) {
			return
		}
	}
	c.Nontrivial()
}

func init() {
	vRegister("C07", &vProp{
		Cases: func(tier string) int {
			if tier == "thorough" {
				return 6400
			}
			return 320
		},
		Run: vRunC07,
		Meta: vMeta{Level: "fault_enumeration",
			Rule:        "3 of 4 cases: asyncbufio.Writer (queue depth 1..64 and the real 1000, flush interval 200us..1h) over a gated in-memory writer that blocks on command; producer issues 30-3000 writes of 1..9000-byte payloads with unique ids, random flushes (also while the gate is closed, in 1 of 8 cases for 1.1-5.6 s) and a final close. 1 of 4 cases: a real LJH2.2 / LJH3 / OFF writer whose file is a 4 KiB named pipe that the harness does not drain until the scripted moment (never stalled / from the header / after some records; released at the first rejection / after several / partly full / only after Flush or Close has been called with the queue full), with record sizes 24..1016 bytes so the first rejection lands on different part indices; fault = the stall point; oracle = bytes at the sink are exactly the accepted payloads/records in order, whole records only, and complete when Flush/Close return; LJH3 records of mixed lengths (3000-40000 samples among short ones); script slow-drain: after the first rejection the disk returns slower than a paced producer for 4000-6000 records",
			Assumptions: []string{"Linux named-pipe semantics stand in for a stalling disk", "callers do not modify a buffer after handing it to Write (the record writers do not)"},
			Guards: map[string]map[string]int{
				"quick":    {"l1_cases_with_rejection": 40, "l1_flush_while_stalled": 20, "l1_flush_after_stalled_flush": 100, "l1_flushes": 500, "l2_cases_with_rejection": 30, "l2_ljh22": 10, "l2_ljh3": 10, "l2_off": 10, "l2_rejected": 500, "l1_flush_stalled_for_seconds": 10, "l2_during-flush_with_full_queue": 3, "l2_during-close_with_full_queue": 3},
				"thorough": {"l1_cases_with_rejection": 800, "l1_flush_while_stalled": 400, "l2_cases_with_rejection": 600, "l2_ljh22": 200, "l2_ljh3": 200, "l2_off": 200, "l1_flush_stalled_for_seconds": 200, "l2_during-flush_with_full_queue": 60, "l2_during-close_with_full_queue": 60},
			}},
	})
}
