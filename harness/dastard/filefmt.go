package PKGNAME

// Independent decoders for the three output formats, written from doc/LJH.md, the
// LJH3 JSON header + record layout, and the OFF 0.3.0 layout (not from the writers).

import (
	"bytes"
	"encoding/binary"
	"encoding/json"
	"fmt"
	"math"
	"os"
	"strconv"
	"strings"
)

type vLJHRec struct {
	subframe int64
	timeUS   int64
	data     []uint16
}

type vLJH22File struct {
	hdr       map[string]string
	headerLen int
	nsamp     int
	recs      []vLJHRec
	trailing  int // bytes after the last whole record
	size      int
}

func vParseLJH22(b []byte) (*vLJH22File, error) {
	f := &vLJH22File{hdr: map[string]string{}, size: len(b)}
	if !bytes.HasPrefix(b, []byte("#LJH Memorial File Format")) {
		return nil, fmt.Errorf("file does not begin with '#LJH Memorial File Format'")
	}
	tag := []byte("#End of Header")
	idx := bytes.Index(b, tag)
	if idx < 0 {
		return nil, fmt.Errorf("no '#End of Header' line")
	}
	end := idx + len(tag)
	for end < len(b) && (b[end] == '\n' || b[end] == '\r') {
		end++
		if b[end-1] == '\n' {
			break
		}
	}
	f.headerLen = end
	for _, line := range strings.Split(string(b[:idx]), "\n") {
		line = strings.TrimRight(line, "\r")
		if k := strings.Index(line, ": "); k > 0 {
			f.hdr[line[:k]] = line[k+2:]
		} else if strings.HasSuffix(line, ":") {
			f.hdr[strings.TrimSuffix(line, ":")] = ""
		}
	}
	n, err := strconv.Atoi(f.hdr["Total Samples"])
	if err != nil || n < 0 {
		return nil, fmt.Errorf("header has no valid 'Total Samples': %q", f.hdr["Total Samples"])
	}
	f.nsamp = n
	body := b[end:]
	rl := 16 + 2*n
	for len(body) >= rl {
		r := vLJHRec{subframe: int64(binary.LittleEndian.Uint64(body)), timeUS: int64(binary.LittleEndian.Uint64(body[8:]))}
		r.data = make([]uint16, n)
		for i := range r.data {
			r.data[i] = binary.LittleEndian.Uint16(body[16+2*i:])
		}
		f.recs = append(f.recs, r)
		body = body[rl:]
	}
	f.trailing = len(body)
	return f, nil
}

func (f *vLJH22File) intKey(prefix string) (int, bool) {
	for k, v := range f.hdr {
		if k == prefix || strings.HasPrefix(k, prefix+" (") {
			n, err := strconv.Atoi(strings.TrimSpace(v))
			return n, err == nil
		}
	}
	return 0, false
}

type vLJH3Rec struct {
	firstRising int32
	frame       int64
	timeUS      int64
	data        []uint16
}

type vLJH3Header struct {
	Frameperiod   float64 `json:"frameperiod"`
	Format        string  `json:"File Format"`
	FormatVersion string  `json:"File Format Version"`
	TDM           struct {
		NumberOfRows      int
		NumberOfColumns   int
		SubframeDivisions int
		Row               int
		Column            int
		SubframeOffset    int
	} `json:"TDM"`
}

type vLJH3File struct {
	hdr       vLJH3Header
	headerLen int
	recs      []vLJH3Rec
	trailing  int
}

func vJSONHeader(b []byte, into any) (int, error) {
	dec := json.NewDecoder(bytes.NewReader(b))
	if err := dec.Decode(into); err != nil {
		return 0, fmt.Errorf("JSON header does not parse: %v", err)
	}
	off := int(dec.InputOffset())
	if off >= len(b) || b[off] != '\n' {
		return 0, fmt.Errorf("JSON header is not followed by a newline")
	}
	return off + 1, nil
}

func vParseLJH3(b []byte) (*vLJH3File, error) {
	f := &vLJH3File{}
	n, err := vJSONHeader(b, &f.hdr)
	if err != nil {
		return nil, err
	}
	f.headerLen = n
	body := b[n:]
	for len(body) >= 24 {
		ns := int(int32(binary.LittleEndian.Uint32(body)))
		if ns < 0 || len(body) < 24+2*ns {
			break
		}
		r := vLJH3Rec{firstRising: int32(binary.LittleEndian.Uint32(body[4:])), frame: int64(binary.LittleEndian.Uint64(body[8:])),
			timeUS: int64(binary.LittleEndian.Uint64(body[16:]))}
		r.data = make([]uint16, ns)
		for i := range r.data {
			r.data[i] = binary.LittleEndian.Uint16(body[24+2*i:])
		}
		f.recs = append(f.recs, r)
		body = body[24+2*ns:]
	}
	f.trailing = len(body)
	return f, nil
}

type vOFFRec struct {
	nsamp, npre int32
	frame       int64
	timeNS      int64
	ptm, ptd    float32
	resid       float32
	coefs       []float32
}

type vOFFHeader struct {
	ChannelIndex              int
	ChannelName               string
	ChannelNumberMatchingName int
	MaxPresamples             int
	MaxSamples                int
	FramePeriodSeconds        float64
	FileFormat                string
	FileFormatVersion         string
	NumberOfBases             int
	ModelInfo                 struct {
		Projectors  struct{ Rows, Cols int }
		Basis       struct{ Rows, Cols int }
		Description string
	}
	ReadoutInfo struct {
		NumberOfRows      int
		NumberOfColumns   int
		NumberOfChans     int
		SubframeDivisions int
		ColumnNum         int
		RowNum            int
		SubframeOffset    int
	}
	PixelInfo struct {
		XPosition, YPosition int
		Name                 string
	}
}

type vOFFFile struct {
	hdr        vOFFHeader
	headerLen  int
	projectors []float64
	basis      []float64
	recs       []vOFFRec
	trailing   int
}

func vParseOFF(b []byte) (*vOFFFile, error) {
	f := &vOFFFile{}
	n, err := vJSONHeader(b, &f.hdr)
	if err != nil {
		return nil, err
	}
	h := f.hdr
	np := h.ModelInfo.Projectors.Rows * h.ModelInfo.Projectors.Cols
	nb := h.ModelInfo.Basis.Rows * h.ModelInfo.Basis.Cols
	if np < 0 || nb < 0 || len(b) < n+8*(np+nb) {
		return nil, fmt.Errorf("file too short for the projector (%dx%d) and basis (%dx%d) matrices", h.ModelInfo.Projectors.Rows, h.ModelInfo.Projectors.Cols, h.ModelInfo.Basis.Rows, h.ModelInfo.Basis.Cols)
	}
	rd := func(off, cnt int) []float64 {
		out := make([]float64, cnt)
		for i := range out {
			out[i] = math.Float64frombits(binary.LittleEndian.Uint64(b[off+8*i:]))
		}
		return out
	}
	f.projectors = rd(n, np)
	f.basis = rd(n+8*np, nb)
	f.headerLen = n + 8*(np+nb)
	body := b[f.headerLen:]
	rl := 36 + 4*h.NumberOfBases
	for h.NumberOfBases >= 0 && len(body) >= rl {
		r := vOFFRec{nsamp: int32(binary.LittleEndian.Uint32(body)), npre: int32(binary.LittleEndian.Uint32(body[4:])),
			frame: int64(binary.LittleEndian.Uint64(body[8:])), timeNS: int64(binary.LittleEndian.Uint64(body[16:])),
			ptm: math.Float32frombits(binary.LittleEndian.Uint32(body[24:])), ptd: math.Float32frombits(binary.LittleEndian.Uint32(body[28:])),
			resid: math.Float32frombits(binary.LittleEndian.Uint32(body[32:]))}
		r.coefs = make([]float32, h.NumberOfBases)
		for i := range r.coefs {
			r.coefs[i] = math.Float32frombits(binary.LittleEndian.Uint32(body[36+4*i:]))
		}
		f.recs = append(f.recs, r)
		body = body[rl:]
	}
	f.trailing = len(body)
	return f, nil
}

// vOpenFDsUnder lists descriptors of this process that point below dir.
func vOpenFDsUnder(dir string) []string {
	var out []string
	ents, err := os.ReadDir("/proc/self/fd")
	if err != nil {
		return nil
	}
	for _, e := range ents {
		t, err := os.Readlink("/proc/self/fd/" + e.Name())
		if err == nil && strings.HasPrefix(t, dir) {
			out = append(out, t)
		}
	}
	return out
}

func vF32eq(a, b float32) bool {
	return math.Float32bits(a) == math.Float32bits(b) || (a != a && b != b)
}
