package PKGNAME

// C10 — source life cycle: start/stop always completes, cleans up, and is repeatable.
//
// Drive: the real Start / CoreLoop / Stop on Triangle, SimPulse, Erroring, Abaco (scripted
// producers and real loopback UDP), Lancero (scripted card), Roach (loopback UDP) and a harness
// source that embeds the real AnySource and ends itself at a scripted moment. Scenarios:
// repeated start/stop on one object, concurrent Stop callers, Start while active, failed Start
// (hardware silent, card refusing) followed by a Start with data flowing, Stop racing and
// following self-termination (also with writing active), requests left pending at Stop.
// verifPoint sites execute forced orderings ("hold at A until B has been passed", with a
// fall-through) and record the trace, from which the observed cross-goroutine orderings are
// reported.
//
// Oracle: Start on a non-inactive source fails; after a successful Start the state is Active and
// blocks reach ProcessSegments; every Stop returns (wait-state analysis, §2.6); when all have
// returned the state is Inactive, no goroutine of the source's worker functions exists
// (goroutine census), writing is stopped and no file below the output directory is open, and
// the source can be configured and started again and delivers blocks; after a failed Start the
// state is Inactive, the census is clean and a Start with data flowing succeeds.

import (
	"encoding/binary"
	"fmt"
	"log"
	"net"
	"os"
	"path/filepath"
	"sort"
	"strings"
	"sync"
	"sync/atomic"
	"time"

	"github.com/spf13/viper"
	"github.com/usnistgov/dastard/lancero"
	"github.com/usnistgov/dastard/packets"
)

// ---------------------------------------------------------------- ordering monitor

type vOrd struct {
	mu         sync.Mutex
	cond       *sync.Cond
	seen       map[string]int
	trace      []string
	holdAt     string
	until      string
	held       int
	process    int64
	busyHeld   bool
	holding    bool // a goroutine is being held at core.process.end right now
	realTiming int32
}

func vNewOrd() *vOrd {
	o := &vOrd{seen: map[string]int{}}
	o.cond = sync.NewCond(&o.mu)
	return o
}

// saw reports whether the point has been passed since the last set.
func (o *vOrd) saw(name string) bool {
	o.mu.Lock()
	defer o.mu.Unlock()
	return o.seen[name] > 0
}

// isHolding reports whether the core loop is being held at core.process.end right now.
func (o *vOrd) isHolding() bool {
	o.mu.Lock()
	defer o.mu.Unlock()
	return o.holding
}

// mark lets the harness pass a pseudo point (to release a held goroutine).
func (o *vOrd) mark(name string) {
	o.mu.Lock()
	o.seen[name]++
	o.cond.Broadcast()
	o.mu.Unlock()
}

func (o *vOrd) set(holdAt, until string) {
	o.mu.Lock()
	o.holdAt, o.until = holdAt, until
	o.busyHeld = false
	o.seen = map[string]int{}
	o.trace = nil
	o.mu.Unlock()
}

func (o *vOrd) handlers() *verifHandlers {
	return &verifHandlers{
		Point: func(name string) {
			if name == "core.process.end" {
				atomic.AddInt64(&o.process, 1)
				// "busy core loop": the loop is kept from taking the next block (once per ordering) until Stop has signalled,
				// so the source's producer is waiting to hand over a block at the moment it is told to stop
				o.mu.Lock()
				if o.holdAt == name && o.until != "" && o.seen[o.until] == 0 && !o.busyHeld {
					o.busyHeld = true
					o.held++
					limit := 150 * time.Millisecond
					if o.until == "harness.release" {
						limit = 5 * time.Second // released by the harness itself
					}
					deadline := time.Now().Add(limit)
					o.holding = true
					for o.seen[o.until] == 0 && time.Now().Before(deadline) {
						// (re-armed wake-up: a single timer set before the deadline was computed could fire a moment
						// before the deadline and leave this goroutine waiting for ever - seen once in 1200 thorough cases)
						t := time.AfterFunc(5*time.Millisecond, func() { o.mu.Lock(); o.cond.Broadcast(); o.mu.Unlock() })
						o.cond.Wait()
						t.Stop()
					}
					o.holding = false
				}
				o.mu.Unlock()
			}
			if name == "core.idle" || name == "core.process.end" || strings.HasPrefix(name, "abaco.") || strings.HasPrefix(name, "lancero.") || strings.HasPrefix(name, "process.") {
				return // too frequent for the trace; not used in orderings
			}
			o.mu.Lock()
			o.seen[name]++
			if len(o.trace) < 100 {
				o.trace = append(o.trace, name)
			}
			o.cond.Broadcast()
			if name == o.holdAt && o.until != "" && o.seen[o.until] == 0 {
				o.held++
				deadline := time.Now().Add(150 * time.Millisecond)
				for o.seen[o.until] == 0 && time.Now().Before(deadline) {
					t := time.AfterFunc(5*time.Millisecond, func() { o.mu.Lock(); o.cond.Broadcast(); o.mu.Unlock() })
					o.cond.Wait()
					t.Stop()
				}
			}
			o.mu.Unlock()
		},
		Duration: func(name string, d time.Duration) time.Duration {
			if atomic.LoadInt32(&o.realTiming) == 1 {
				return d // the time-out scenario runs with the program's own periods
			}
			switch name {
			case "abaco.readPeriod":
				return 10 * time.Millisecond // also used with real UDP, where the sender cannot be throttled: 1 s of slack
			case "lancero.readPeriod":
				return 3 * time.Millisecond
			case "abaco.panicTime":
				return 60 * time.Second
			}
			return d
		},
	}
}

// orderings returns "a<b" for every pair (a from the core/deactivate points, b from the stop points) as observed.
func (o *vOrd) orderings() []string {
	o.mu.Lock()
	defer o.mu.Unlock()
	first := map[string]int{}
	for i, n := range o.trace {
		if _, ok := first[n]; !ok {
			first[n] = i
		}
	}
	var out []string
	for _, a := range []string{"core.exit.err", "core.exit.closed", "deactivate.enter"} {
		for _, b := range []string{"stop.enter", "stop.signalled", "stop.waited"} {
			ia, oka := first[a]
			ib, okb := first[b]
			if oka && okb {
				if ia < ib {
					out = append(out, a+"<"+b)
				} else {
					out = append(out, b+"<"+a)
				}
			}
		}
	}
	return out
}

// ---------------------------------------------------------------- source adapters

type vLife struct {
	name     string
	ds       DataSource
	any      *AnySource
	workers  []string // substrings of frames that belong to this source's worker goroutines
	config   func() error
	feed     func(on bool) // hardware sending or silent (where it applies)
	selfEnd  func()        // make the source end itself now (where it applies)
	nchan    int           // channel count for the next configure (sources where it can be chosen)
	released func() bool   // have the (scripted) devices been released? (nil where it cannot be observed)
	close    func()
}

func vRoachPacket(nchan, nsamp int, sampnum uint64) []byte {
	b := make([]byte, 16+2*nchan*nsamp)
	b[1] = 0
	binary.BigEndian.PutUint16(b[2:], uint16(nchan))
	binary.BigEndian.PutUint16(b[4:], uint16(nsamp))
	binary.BigEndian.PutUint16(b[6:], 1) // 2-byte words
	binary.BigEndian.PutUint64(b[8:], sampnum)
	for i := 0; i < nchan*nsamp; i++ {
		binary.BigEndian.PutUint16(b[16+2*i:], uint16(1000+i%37))
	}
	return b
}

// vSender sends datagrams produced by mk to a UDP port every millisecond while on.
type vSender struct {
	on   int32
	stop chan struct{}
	wg   sync.WaitGroup
}

func vStartSender(port int, mk func(i int) [][]byte) *vSender {
	s := &vSender{stop: make(chan struct{})}
	s.wg.Add(1)
	go func() {
		defer s.wg.Done()
		conn, err := net.Dial("udp", fmt.Sprintf("127.0.0.1:%d", port))
		if err != nil {
			return
		}
		defer conn.Close()
		t := time.NewTicker(time.Millisecond)
		defer t.Stop()
		for i := 0; ; i++ {
			select {
			case <-s.stop:
				return
			case <-t.C:
			}
			if atomic.LoadInt32(&s.on) == 1 {
				for _, b := range mk(i) {
					conn.Write(b)
				}
			}
		}
	}()
	return s
}

func (s *vSender) halt() { close(s.stop); s.wg.Wait() }

// vRefusingCard wraps the endless card and makes the collector refuse to start a number of times.
type vRefusingCard struct {
	*vCard
	refuseRun int32 // StartCollector calls (second and later = StartRun) to refuse
	silent    int32 // AvailableBuffer returns an error (sampling fails)
}

func (k *vRefusingCard) StartCollector(sim bool) error {
	k.vCard.mu.Lock()
	n := k.vCard.collStart
	k.vCard.mu.Unlock()
	if n >= 1 && atomic.LoadInt32(&k.refuseRun) > 0 {
		atomic.AddInt32(&k.refuseRun, -1)
		k.vCard.StartCollector(sim)
		return fmt.Errorf("scripted card: collector refuses to start")
	}
	return k.vCard.StartCollector(sim)
}

func (k *vRefusingCard) AvailableBuffer() ([]byte, time.Time, error) {
	if atomic.LoadInt32(&k.silent) == 1 {
		return nil, time.Now(), fmt.Errorf("scripted card: no data")
	}
	return k.vCard.AvailableBuffer()
}

var _ lancero.Lanceroer = (*vRefusingCard)(nil)

func vMakeLife(c *vCase, kind string, port int) *vLife {
	r := c.R
	l := &vLife{name: kind, feed: func(bool) {}, close: func() {}}
	switch kind {
	case "triangle":
		ts := NewTriangleSource()
		l.ds, l.any = ts, &ts.AnySource
		l.nchan = 3
		l.config = func() error {
			return ts.Configure(&TriangleSourceConfig{Nchan: l.nchan, SampleRate: 200000, Min: 100, Max: 400})
		}
		l.workers = []string{"TriangleSource).StartRun"}
	case "simpulse":
		sp := NewSimPulseSource()
		l.ds, l.any = sp, &sp.AnySource
		l.nchan = 3
		l.config = func() error {
			return sp.Configure(&SimPulseSourceConfig{Nchan: l.nchan, SampleRate: 200000, Pedestal: 100, Amplitudes: []float64{3000}, Nsamp: 800})
		}
		l.workers = []string{"SimPulseSource).StartRun"}
	case "erroring":
		es := NewErroringSource()
		l.ds, l.any = es, &es.AnySource
		l.config = func() error { return nil }
		l.workers = []string{"ErroringSource).StartRun"}
	case "selfend":
		var cur *vSelfEnd
		se := vNewSelfEnd(3, r.Intn(2), 0)
		cur = se
		l.ds, l.any = se, &se.AnySource
		l.config = func() error { se.endNow = make(chan struct{}); atomic.StoreInt32(&se.ended, 0); return nil }
		l.selfEnd = func() { close(cur.endNow) }
		l.workers = []string{"vSelfEnd).StartRun"}
	case "abaco-scripted":
		as, _ := NewAbacoSource()
		l.ds, l.any = as, &as.AnySource
		l.config = func() error {
			s := &vAbScript{fpp: 8, bits: 16, nSample: 6, nprod: 2}
			s.groups = []vAbGroup{{first: 0, nchan: 2, snBase: 100, producer: 0, lost: map[int]bool{}}, {first: 8, nchan: 1, snBase: 5000, producer: 1, lost: map[int]bool{}}}
			run := &vAbRun{s: s, nextIdx: []int{6, 6}, delivered: make([][]int, 2), calls: make([]int, 2), starts: make([]int, 2), stops: make([]int, 2)}
			run.extEvery = 4
			run.backlog = func() int { return len(as.buffersChan) }
			run.stopDelay = 25 * time.Millisecond
			as.producers = []PacketProducer{&vAbProducer{run: run, id: 0}, &vAbProducer{run: run, id: 1}}
			l.released = func() bool {
				run.mu.Lock()
				defer run.mu.Unlock()
				return run.stops[0] >= 1 && run.stops[1] >= 1
			}
			return nil
		}
		l.workers = []string{"AbacoSource).readerMainLoop", "AbacoSource).getNextBlock"}
	case "abaco-udp":
		as, _ := NewAbacoSource()
		l.ds, l.any = as, &as.AnySource
		snd := vStartSender(port, func(i int) [][]byte {
			var out [][]byte
			for gi, g := range [][2]int{{0, 2}, {4, 1}} {
				p := packets.NewPacket(10, uint32(gi), uint32(1000+i-1), g[0])
				p.SetTimestamp(&packets.PacketTimestamp{T: uint64(1000000 + i*8*12500), Rate: 1e8})
				p.NewData(make([]int16, 8*g[1]), []int16{int16(g[1])})
				out = append(out, p.Bytes())
			}
			if i%97 == 5 {
				// stray traffic on the data port: an empty datagram and a few bytes that are no packet (a source ignores them)
				out = append(out, []byte{}, []byte{1, 2, 3})
			}
			return out
		})
		l.feed = func(on bool) {
			v := int32(0)
			if on {
				v = 1
			}
			atomic.StoreInt32(&snd.on, v)
		}
		l.close = snd.halt
		l.config = func() error {
			return as.Configure(&AbacoSourceConfig{HostPortUDP: []string{fmt.Sprintf("127.0.0.1:%d", port)}})
		}
		l.workers = []string{"AbacoSource).readerMainLoop", "AbacoSource).getNextBlock", "AbacoUDPReceiver).start"}
	case "roach-udp":
		rs, _ := NewRoachSource()
		l.ds, l.any = rs, &rs.AnySource
		snd := vStartSender(port, func(i int) [][]byte { return [][]byte{vRoachPacket(3, 20, uint64(i*20))} })
		l.feed = func(on bool) {
			v := int32(0)
			if on {
				v = 1
			}
			atomic.StoreInt32(&snd.on, v)
		}
		l.close = func() { snd.halt(); rs.Delete() }
		l.config = func() error {
			return rs.Configure(&RoachSourceConfig{HostPort: []string{fmt.Sprintf("127.0.0.1:%d", port)}, Rates: []float64{20000}})
		}
		l.workers = []string{"RoachSource).StartRun", "RoachDevice).readPackets"}
	case "lancero-card":
		ls := new(LanceroSource)
		ls.name = "Lancero"
		ls.channelsPerPixel = 2
		l.ds, l.any = ls, &ls.AnySource
		var rc *vRefusingCard
		failMode := 0 // 0 healthy, 1 collector refuses in StartRun, 2 no data while sampling
		l.config = func() error {
			rc = &vRefusingCard{vCard: vEndlessCard(3, 2, uint64(r.Int63()))}
			rc.vCard.backlog = func() int { return len(ls.buffersChan) }
			rc.vCard.stopDelay = 25 * time.Millisecond
			card := rc.vCard
			base := 0
			l.released = func() bool {
				card.mu.Lock()
				defer card.mu.Unlock()
				return card.stopped-base >= 2 // sampling stops the adapter once, the end of the run once more
			}
			switch failMode {
			case 1:
				rc.refuseRun = 1
			case 2:
				rc.silent = 1
			}
			ls.nsamp = 1
			dev := &LanceroDevice{devnum: 0, nrows: 3, lsync: 2000, clockMHz: 125, card: rc}
			ls.devices = map[int]*LanceroDevice{0: dev}
			ls.active = []*LanceroDevice{dev}
			ls.ncards, ls.clockMHz, ls.firstRowChanNum = 1, 125, 1
			ls.configError = nil
			return nil
		}
		// feed(false): the next start fails (alternately in sampling and in StartRun)
		nfail := 0
		l.feed = func(on bool) { // takes effect at the next configure (a new card object)
			if on {
				failMode = 0
				return
			}
			failMode = 1 + nfail%2
			nfail++
		}
		l.workers = []string{"LanceroSource).launchLanceroReader", "LanceroSource).getNextBlock"}
	}
	return l
}

// ---------------------------------------------------------------- checks

// vCensusLeaks: goroutines whose stack contains one of the frames and that are still there after the settle time.
func vCensusLeaks(frames []string) []string {
	match := func(dump string) map[string]string {
		out := map[string]string{}
		for _, b := range strings.Split(dump, "\n\n") {
			for _, f := range frames {
				if strings.Contains(b, f) {
					id := strings.SplitN(b, " ", 3)
					if len(id) > 1 {
						out[id[1]] = b
					}
					break
				}
			}
		}
		return out
	}
	var m1 map[string]string
	for i := 0; i < 300; i++ { // up to 3 s for the goroutines to finish on their own
		m1 = match(vDump())
		if len(m1) == 0 {
			return nil
		}
		time.Sleep(10 * time.Millisecond)
	}
	time.Sleep(1500 * time.Millisecond)
	m2 := match(vDump())
	var leaks []string
	for id, b2 := range m2 {
		if b1, ok := m1[id]; ok && vFrames(b1) == vFrames(b2) {
			leaks = append(leaks, b2)
		}
	}
	sort.Strings(leaks)
	return leaks
}

type vLifeRun struct {
	c       *vCase
	l       *vLife
	ord     *vOrd
	queued  chan func()
	dir     string
	hist    []string
	dead    bool
	running bool // the last Start succeeded and no Stop has returned since
}

func (x *vLifeRun) note(f string, a ...any) { x.hist = append(x.hist, fmt.Sprintf(f, a...)) }

func (x *vLifeRun) fail(sig, f string, a ...any) {
	x.c.Violate(sig, "source %s: %s\nhistory: %v", x.l.name, fmt.Sprintf(f, a...), x.hist)
	x.dead = true
}

// start: configure + Start; wantOK says whether the hardware is in a state where Start must succeed.
func (x *vLifeRun) start(wantOK bool) bool {
	if x.dead {
		return false
	}
	if err := x.l.config(); err != nil {
		x.fail("c10:configure-failed", "configuring an inactive source failed: %v", err)
		return false
	}
	p0 := atomic.LoadInt64(&x.ord.process)
	var err error
	x.note("Start(want ok=%v)", wantOK)
	if !vWatched(x.c, "Start", 30*time.Second, func() { err = Start(x.l.ds, x.queued, 4, 16) }) {
		x.dead = true
		return false
	}
	if !wantOK {
		if err == nil {
			x.c.Cov("starts_expected_to_fail_that_succeeded", 1)
			return true // the hardware woke up in time; treat as a running source
		}
		x.c.Cov("failed_starts", 1)
		if st := x.l.ds.GetState(); st != Inactive {
			x.fail("c10:failed-start-not-inactive", "Start failed (%v) but the state is %v", err, st)
		}
		if leaks := vCensusLeaks(append([]string{"dastard.CoreLoop"}, x.l.workers...)); len(leaks) > 0 && !x.dead {
			x.fail("c10:goroutine-leak-after-failed-start@"+vTopRepoFrame(leaks[0]), "Start failed (%v) but %d worker goroutine(s) of the source are still there\n%s", err, len(leaks), vTrim(leaks[0], 1500))
		}
		return false
	}
	if err != nil {
		x.fail("c10:start-failed", "Start of a configured, inactive source with data flowing failed: %v", err)
		return false
	}
	x.c.Cov("starts", 1)
	if st := x.l.ds.GetState(); st != Active && x.l.name != "erroring" && x.l.selfEnd == nil {
		x.fail("c10:not-active-after-start", "Start succeeded but the state is %v", st)
		return false
	}
	if x.l.name == "erroring" {
		return true
	}
	// blocks must arrive
	t0 := time.Now()
	for atomic.LoadInt64(&x.ord.process) < p0+2 {
		time.Sleep(time.Millisecond)
		if time.Since(t0) > 20*time.Second {
			x.fail("c10:no-blocks-after-start", "Start succeeded but fewer than 2 blocks were processed in 20 s (state %v)", x.l.ds.GetState())
			return false
		}
	}
	x.c.Cov("starts_delivering_blocks", 1)
	x.running = true
	return true
}

// stop: n concurrent Stop callers; all must return.
func (x *vLifeRun) stop(n int) {
	if x.dead {
		return
	}
	x.note("Stop x%d", n)
	var wg sync.WaitGroup
	errs := make([]error, n)
	ok := vWatched(x.c, "Stop", 20*time.Second, func() {
		for i := 0; i < n; i++ {
			wg.Add(1)
			go func(i int) { defer wg.Done(); errs[i] = x.l.ds.Stop() }(i)
		}
		wg.Wait()
	})
	if !ok {
		x.dead = true
		if x.c.Violated() {
			x.c.mu.Lock()
			x.c.res.Detail += fmt.Sprintf("\nsource %s, %d concurrent Stop callers\nhistory: %v\ntrace: %v", x.l.name, n, x.hist, x.ord.trace)
			x.c.mu.Unlock()
		}
		return
	}
	x.c.Cov("stops_returned", n)
	if x.l.released != nil && x.running {
		if !x.l.released() {
			x.fail("c10:devices-open-when-stop-returned", "all %d Stop calls have returned but the source's devices have not been released yet (a device that takes 25 ms to close): workers are still at work", n)
			return
		}
		x.c.Cov("device_release_checks", 1)
	}
	x.running = false
	if n > 1 {
		x.c.Cov("concurrent_stop_groups", 1)
	}
}

// afterStop: everything the statement promises once all Stop calls have returned.
func (x *vLifeRun) afterStop() {
	if x.dead {
		return
	}
	if st := x.l.ds.GetState(); st != Inactive {
		// the last transition may still be under way if a Stop returned early because another was in progress:
		// all callers have returned here, so the state must be final
		x.fail("c10:not-inactive-after-stop", "all Stop calls have returned but the state is %v (trace %v)", st, x.ord.trace)
		return
	}
	if leaks := vCensusLeaks(append([]string{"dastard.CoreLoop"}, x.l.workers...)); len(leaks) > 0 {
		x.fail("c10:goroutine-leak@"+vTopRepoFrame(leaks[0]), "all Stop calls have returned but %d worker goroutine(s) of the source are still there 4.5 s later\n%s", len(leaks), vTrim(leaks[0], 1500))
		return
	}
	if ws := x.l.any.ComputeWritingState(); ws.Active {
		x.fail("c10:writing-still-active", "all Stop calls have returned but the reported writing state is still active (%s)", ws.FilenamePattern)
		return
	}
	if open := vOpenFDsUnder(x.dir); len(open) > 0 {
		x.fail("c10:files-still-open", "all Stop calls have returned but %d files below the output directory are still open: %v", len(open), open)
		return
	}
	x.c.Cov("after_stop_checks", 1)
	for _, o := range x.ord.orderings() {
		x.c.Distinct("ordering", x.l.name+":"+o)
	}
}

// request runs f inside the core loop (as the RPC layer does) and waits for it; false if nobody took it.
func (x *vLifeRun) request(f func()) bool {
	done := make(chan struct{})
	select {
	case x.queued <- func() { f(); close(done) }:
		<-done
		return true
	case <-time.After(3 * time.Second):
		return false
	}
}

// vRunLifeServer: start/stop histories through the RPC layer's own bookkeeping (which source is the active one, whether one is
// active). An in-package SourceControl wired as RunRPCServer wires it; sources Triangle and SimPulse. While one runs, Starts of the
// other source, of the same source and of a name that does not exist must be refused and must not change which source a later Stop
// stops: after Stop the source that was running is Inactive, its core loop is gone, and it can be started again.
func vRunLifeServer(c *vCase) {
	viper.Reset()
	r := c.R
	verifInstall(nil)
	sc, stopHB := vNewInPackageControl()
	defer close(stopHB)
	var okay bool
	var str string
	names := []string{"TRIANGLESOURCE", "SIMPULSESOURCE"}
	objs := []*AnySource{&sc.triangle.AnySource, &sc.simPulses.AnySource}
	hist := []string{}
	fail := func(sig, f string, a ...any) {
		c.Violate(sig, "%s\nhistory: %v", fmt.Sprintf(f, a...), hist)
	}
	call := func(what string, f func() error) (error, bool) {
		var err error
		hist = append(hist, what)
		if !vWatched(c, "request "+strings.SplitN(what, "(", 2)[0], 15*time.Second, func() { err = f() }) {
			return nil, false
		}
		return err, true
	}
	configure := func(which int) bool {
		var err error
		if which == 0 {
			err = sc.ConfigureTriangleSource(&TriangleSourceConfig{Nchan: 2 + r.Intn(3), SampleRate: 200000, Min: 100, Max: 400}, &okay)
		} else {
			err = sc.ConfigureSimPulseSource(&SimPulseSourceConfig{Nchan: 2 + r.Intn(3), SampleRate: 200000, Pedestal: 100, Amplitudes: []float64{1000}, Nsamp: 500}, &okay)
		}
		if err != nil {
			c.Inconclusive("setup", "configuring source %d: %v", which, err)
			return false
		}
		return true
	}
	c.Describe("source=server scenario=refused-starts seed=%d idx=%d", c.Seed, c.Idx)
	for cyc := 0; cyc < 2+r.Intn(2); cyc++ {
		a := r.Intn(2)
		b := 1 - a
		if !configure(a) || !configure(b) {
			return
		}
		na := names[a]
		err, ret := call("Start("+na+")", func() error { return sc.Start(&na, &okay) })
		if !ret {
			return
		}
		if err != nil {
			fail("c10:start-refused-when-inactive", "Start(%s) with no source running was refused: %v", na, err)
			return
		}
		c.Cov("starts_delivering_blocks", 1)
		for i := 0; i < 1+r.Intn(3); i++ {
			time.Sleep(time.Duration(2+r.Intn(10)) * time.Millisecond)
			nm := vPick(r, names[b], names[b], na, "NOSUCHSOURCE")
			err, ret := call("Start("+nm+") while "+na+" runs", func() error { return sc.Start(&nm, &okay) })
			if !ret {
				return
			}
			if err == nil {
				fail("c10:second-start-accepted", "Start(%s) while %s was running was accepted", nm, na)
				return
			}
			c.Cov("server_starts_refused_while_running", 1)
		}
		if st := objs[a].GetState(); st != Active {
			fail("c10:not-active-after-start", "%s was started and not stopped, but its state is %v", na, st)
			return
		}
		err, ret = call("Stop()", func() error { return sc.Stop(&str, &okay) })
		if !ret {
			return
		}
		if err != nil {
			fail("c10:stop-refused-while-running", "Stop while %s was running was refused: %v", na, err)
			return
		}
		c.Cov("stops_returned", 1)
		if st := objs[a].GetState(); st != Inactive {
			fail("c10:not-inactive-after-stop", "Stop has returned but %s, the source that was running, is in state %v (the other source: %v)", na, st, objs[b].GetState())
			go objs[a].Stop()
			return
		}
		if leaks := vCensusLeaks([]string{"dastard.CoreLoop"}); len(leaks) > 0 {
			fail("c10:goroutine-leak@"+vTopRepoFrame(leaks[0]), "Stop has returned but %d core loop(s) are still there 4.5 s later\n%s", len(leaks), vTrim(leaks[0], 1500))
			return
		}
		c.Cov("after_stop_checks", 1)
		c.Cov("server_histories", 1)
	}
	if !c.Violated() {
		// the TDM source through its RPC configuration: a request naming a card that does not exist is refused; a valid one
		// follows, and the source must then start, deliver blocks and stop (what was refused earlier is forgotten)
		rows := 2 + r.Intn(3)
		gpath := filepath.Join(c.Dir, "cringeGlobals.json")
		os.WriteFile(gpath, []byte(fmt.Sprintf(`{"SETT": 10, "seqln": %d, "lsync": 2000, "testpattern": 0, "propagationdelay": 1, "NSAMP": 1, "carddelay": 1, "XPT": 0}`, rows)), 0o644)
		old := cringeGlobalsPath
		cringeGlobalsPath = gpath
		defer func() { cringeGlobalsPath = old }()
		ls := sc.lancero
		card := vEndlessCard(rows, 2, uint64(r.Int63()))
		card.backlog = func() int { return len(ls.buffersChan) }
		card1 := vEndlessCard(rows, 2, uint64(r.Int63()))
		card1.backlog = func() int { return len(ls.buffersChan) }
		ls.devices = map[int]*LanceroDevice{0: {devnum: 0, nrows: rows, lsync: 2000, clockMHz: 125, card: card},
			1: {devnum: 1, nrows: rows, lsync: 2000, clockMHz: 125, card: card1}}
		verifInstall(&verifHandlers{Duration: func(name string, d time.Duration) time.Duration {
			if name == "lancero.readPeriod" {
				return 5 * time.Millisecond
			}
			return d
		}})
		defer verifInstall(nil)
		bad := &LanceroSourceConfig{ActiveCards: []int{vPick(r, 3, 5, 7)}, FirstRow: 1}
		if err, ret := call(fmt.Sprintf("ConfigureLanceroSource(cards %v)", bad.ActiveCards), func() error { return sc.ConfigureLanceroSource(bad, &okay) }); !ret {
			return
		} else if err == nil {
			fail("c10:configure-accepted", "a Lancero configuration naming card %v, which does not exist, was accepted", bad.ActiveCards)
			return
		}
		good := &LanceroSourceConfig{ActiveCards: []int{0}, FirstRow: 1}
		if err, ret := call("ConfigureLanceroSource(cards [0])", func() error { return sc.ConfigureLanceroSource(good, &okay) }); !ret {
			return
		} else if err != nil {
			fail("c10:configure-failed", "a valid Lancero configuration was refused after an invalid one: %v", err)
			return
		}
		nl := "LANCEROSOURCE"
		err, ret := call("Start(LANCEROSOURCE)", func() error { return sc.Start(&nl, &okay) })
		if !ret {
			return
		}
		if err != nil {
			fail("c10:start-refused-when-inactive", "Start(LANCEROSOURCE) was refused although no source runs and the last configuration request was accepted: %v", err)
			return
		}
		time.Sleep(time.Duration(10+r.Intn(30)) * time.Millisecond)
		// a configuration request while the source runs is refused and changes nothing: in particular not which cards Stop releases
		other := &LanceroSourceConfig{ActiveCards: []int{1}, FirstRow: 1}
		if err, ret := call("ConfigureLanceroSource(cards [1]) while the source runs on card 0", func() error { return sc.ConfigureLanceroSource(other, &okay) }); !ret {
			return
		} else if err == nil {
			fail("c10:configure-accepted", "a Lancero configuration request was accepted while the source was running")
			return
		}
		stoppedBefore := card.stopped
		if err, ret := call("Stop()", func() error { return sc.Stop(&str, &okay) }); !ret {
			return
		} else if err != nil {
			fail("c10:stop-refused-while-running", "Stop while the Lancero source was running was refused: %v", err)
			return
		}
		if st := ls.GetState(); st != Inactive {
			fail("c10:not-inactive-after-stop", "Stop has returned but the Lancero source is in state %v", st)
			return
		}
		if card.stopped == stoppedBefore {
			fail("c10:device-not-released", "Stop has returned but the card the source was running on (card 0) was never stopped (card 1, named by a refused request: stopped %d times)", card1.stopped)
			return
		}
		c.Cov("device_release_checks", 1)
		c.Cov("server_lancero_reconfigurations", 1)
	}
	c.Nontrivial()
}

func vRunLife(c *vCase) {
	if c.Idx%20 == 19 {
		vRunLifeServer(c)
		return
	}
	viper.Reset()
	r := c.R
	kinds := []string{"triangle", "simpulse", "selfend", "selfend", "erroring", "abaco-scripted", "abaco-udp", "lancero-card", "roach-udp", "selfend"}
	kind := kinds[c.Idx%len(kinds)]
	port := vFreeUDPPort()
	ord := vNewOrd()
	verifInstall(ord.handlers())
	defer verifInstall(nil)
	l := vMakeLife(c, kind, port)
	defer l.close()
	x := &vLifeRun{c: c, l: l, ord: ord, queued: make(chan func()), dir: filepath.Join(c.Dir, "out")}
	os.MkdirAll(x.dir, 0o755)
	scen := r.Intn(6)
	if v := os.Getenv("VERIF_SCEN"); v != "" { // development aid: force the scenario
		fmt.Sscan(v, &scen)
	}
	c.Describe("source=%s scenario=%d seed=%d idx=%d", kind, scen, c.Seed, c.Idx)
	canFail := kind == "abaco-udp" || kind == "roach-udp" || kind == "lancero-card"
	l.feed(true)
	startWriting := func() bool {
		var err error
		if !x.request(func() {
			err = l.any.WriteControl(&WriteControlConfig{Request: "START", Path: x.dir, WriteLJH22: true, WriteLJH3: true})
		}) || err != nil {
			return false
		}
		// make sure files get opened: records via auto trigger on all channels
		all := make([]int, l.any.nchan)
		for i := range all {
			all[i] = i
		}
		fts := FullTriggerState{ChannelIndices: all}
		fts.AutoTrigger = true
		x.request(func() { l.any.ChangeTriggerState(&fts) })
		time.Sleep(20 * time.Millisecond)
		c.Cov("writing_started", 1)
		if vChance(r, 0.4) {
			// the run is paused when the source stops or ends: it is still a run with open files
			x.request(func() { l.any.WriteControl(&WriteControlConfig{Request: "PAUSE"}) })
			c.Cov("writing_paused_at_end", 1)
		}
		return true
	}
	if (kind == "triangle" || kind == "simpulse") && scen%2 == 0 {
		vFailedPrepareStart(c, kind, 1+r.Intn(4))
	}
	switch {
	case canFail && scen < 3:
		// failed Start(s) with the hardware silent / refusing, then a Start with data flowing
		nfail := 1 + r.Intn(2)
		for i := 0; i < nfail && !x.dead; i++ {
			l.feed(false)
			if x.start(false) {
				x.stop(1) // it came up after all
				x.afterStop()
			}
		}
		l.feed(true)
		if kind != "lancero-card" {
			time.Sleep(30 * time.Millisecond) // let datagrams flow
		}
		if x.start(true) {
			c.Cov("start_after_failed_start", 1)
			x.stop(1)
			x.afterStop()
		}
	case (kind == "abaco-udp" || kind == "roach-udp") && scen == 3:
		// fault: datagrams that are not valid packets arrive on the data port while the source runs
		if x.start(true) {
			if conn, err := net.Dial("udp", fmt.Sprintf("127.0.0.1:%d", port)); err == nil {
				for i := 0; i < 1+r.Intn(3); i++ {
					junk := make([]byte, vPick(r, 0, 1, 7, 16, 20, 100, 1000))
					r.Read(junk)
					if kind == "abaco-udp" && vChance(r, 0.4) {
						// a well-formed packet, but of a channel group that was not there when the source started
						p := packets.NewPacket(10, 77, uint32(5000+i), 500)
						p.SetTimestamp(&packets.PacketTimestamp{T: uint64(9000000 + i), Rate: 1e8})
						p.NewData(make([]int16, 8*3), []int16{3})
						junk = p.Bytes()
						x.note("packet of an unknown channel group sent to the data port")
					}
					conn.Write(junk)
					x.note("malformed datagram of %d bytes sent to the data port", len(junk))
					time.Sleep(2 * time.Millisecond)
				}
				conn.Close()
			}
			c.Cov("malformed_datagrams_cases", 1)
			// the stream of good packets continues: either data keep flowing or the source ends itself; it must not wedge or crash
			p1 := atomic.LoadInt64(&ord.process)
			for i := 0; i < 3000 && atomic.LoadInt64(&ord.process) < p1+3 && l.ds.GetState() == Active; i++ {
				time.Sleep(time.Millisecond)
			}
			if atomic.LoadInt64(&ord.process) >= p1+3 {
				c.Cov("data_flowing_after_malformed_datagram", 1)
			}
			x.stop(1)
			x.afterStop()
		}
	case l.selfEnd != nil || kind == "erroring" || (kind == "roach-udp" && scen >= 4) || (kind == "abaco-udp" && scen == 5):
		// (Roach scenarios 4/5, Abaco-over-UDP scenario 5: the source ends itself on a TIMEOUT - the sender falls silent and the reader
		// gives up after its keep-alive time, 2 s for Roach, 5 s for Abaco; the Abaco case runs with the program's own read period)
		timeoutEnd := kind == "roach-udp" || kind == "abaco-udp"
		timeoutMS := 2000
		if kind == "abaco-udp" {
			timeoutMS = 5000
			atomic.StoreInt32(&ord.realTiming, 1)
		}
		if timeoutEnd {
			l.selfEnd = func() { l.feed(false) }
			defer func() { l.selfEnd = nil }()
		}
		// self-termination vs Stop
		pairs := [][2]string{{"", ""}, {"core.exit.err", "stop.enter"}, {"core.exit.closed", "stop.enter"}, {"deactivate.enter", "stop.enter"}, {"deactivate.enter", "stop.signalled"},
			{"stop.enter", "deactivate.enter"}, {"stop.signalled", "core.exit.err"}, {"stop.signalled", "core.exit.closed"}, {"stop.enter", "core.exit.err"}, {"stop.waited", "deactivate.enter"}}
		pr := pairs[r.Intn(len(pairs))]
		cycles := 1 + r.Intn(2)
		if timeoutEnd {
			cycles = 1
		}
		for cyc := 0; cyc < cycles && !x.dead; cyc++ {
			if !x.start(true) {
				break
			}
			writing := false
			if l.selfEnd != nil && (scen%2 == 0 || (timeoutEnd && vChance(r, 0.5))) {
				writing = startWriting()
			}
			ord.set(pr[0], pr[1])
			c.Describe("order %s until %s writing=%v", pr[0], pr[1], writing)
			settle := scen >= 3 // Stop only after the source has ended itself and settled
			if timeoutEnd {
				settle = vChance(r, 0.5)
			}
			if l.selfEnd != nil {
				l.selfEnd()
			}
			if settle {
				for i := 0; i < 3000+timeoutMS && l.ds.GetState() != Inactive; i++ {
					time.Sleep(time.Millisecond)
				}
				c.Cov("stops_after_self_termination", 1)
			} else {
				if timeoutEnd {
					time.Sleep(time.Duration(timeoutMS-100+r.Intn(300)) * time.Millisecond) // Stop arrives around the moment the keep-alive expires
				}
				c.Cov("stops_racing_self_termination", 1)
			}
			if timeoutEnd {
				c.Cov("self_terminations_by_timeout", 1)
				l.feed(true)
			}
			x.stop(1 + r.Intn(3))
			ord.set("", "")
			x.afterStop()
		}
	default:
		switch scen {
		case 0, 1: // repeated start/stop
			n := 2 + r.Intn(4)
			for i := 0; i < n && !x.dead; i++ {
				if i > 0 && l.nchan > 0 {
					l.nchan = vPick(r, 2, 3, 5, 6, 9) // the same object configured with fewer or more channels than in its last run
					x.note("next run with %d channels", l.nchan)
					c.Cov("restarts_with_other_channel_count", 1)
				}
				if !x.start(true) {
					break
				}
				if i%2 == 1 {
					startWriting()
				}
				x.stop(1)
				x.afterStop()
			}
			c.Cov("repeat_histories", 1)
		case 2, 3: // concurrent Stop callers, with forced orderings between them and the core loop
			pairs := [][2]string{{"", ""}, {"stop.signalled", "core.exit.closed"}, {"core.exit.closed", "stop.waited"}, {"stop.enter", "stop.signalled"}, {"deactivate.enter", "stop.enter"},
				{"core.process.end", "stop.signalled"}, {"core.process.end", "stop.signalled"}}
			pr := pairs[r.Intn(len(pairs))]
			for i := 0; i < 2 && !x.dead; i++ {
				if !x.start(true) {
					break
				}
				if i == 1 {
					startWriting()
				}
				ord.set(pr[0], pr[1])
				if pr[0] == "core.process.end" {
					time.Sleep(time.Duration(8+r.Intn(25)) * time.Millisecond) // the producer has its next block ready and waits for the held loop
					c.Cov("stops_while_core_loop_busy", 1)
				}
				x.stop(2 + r.Intn(3))
				ord.set("", "")
				x.afterStop()
			}
		case 4: // Start while active must fail and change nothing
			if x.start(true) {
				var err error
				vWatched(c, "Start", 20*time.Second, func() { err = Start(l.ds, x.queued, 4, 16) })
				if err == nil {
					x.fail("c10:second-start-accepted", "Start on an active source returned no error")
				} else if st := l.ds.GetState(); st != Active {
					x.fail("c10:second-start-changed-state", "a refused Start left the state %v", st)
				}
				c.Cov("start_while_active", 1)
				if !x.dead && vChance(r, 0.6) {
					// Start while a Stop is under way (state Stopping): the core loop is kept from noticing the abort until the
					// Start has been answered; it must be refused and change nothing, and the Stop must then complete
					ord.set("core.process.end", "harness.release")
					time.Sleep(time.Duration(6+r.Intn(10)) * time.Millisecond)
					stopDone := make(chan error, 1)
					go func() { stopDone <- l.ds.Stop() }()
					for i := 0; i < 2000 && !ord.saw("stop.signalled"); i++ {
						time.Sleep(100 * time.Microsecond)
					}
					if ord.saw("stop.signalled") && ord.isHolding() && l.ds.GetState() == Stopping {
						var err2 error
						vWatched(c, "Start", 20*time.Second, func() { err2 = Start(l.ds, x.queued, 4, 16) })
						if err2 == nil && !ord.isHolding() {
							c.Cov("start_while_stopping_undecided", 1) // the hold ran out: the source may have become inactive before the Start
						} else if err2 == nil {
							x.fail("c10:start-while-stopping-accepted", "Start on a source whose Stop is still waiting for the core loop (state Stopping) returned no error")
						}
						c.Cov("start_while_stopping", 1)
					}
					ord.mark("harness.release")
					select {
					case <-stopDone:
						c.Cov("stops_returned", 1)
					case <-time.After(20 * time.Second):
						if !x.dead {
							x.fail("c10:stop-hangs-after-refused-start", "the Stop that was under way when Start was refused has not returned 20 s after the core loop was released (trace %v)", ord.trace)
						}
					}
					ord.set("", "")
					x.running = false
					x.afterStop()
					break
				}
				x.stop(1)
				x.afterStop()
			}
		case 5: // a request left pending while the source stops; a raw-data block still being acquired at Stop
			if x.start(true) {
				if f, err := os.CreateTemp(c.Dir, "raw_*_inprogress.npz"); err == nil {
					x.request(func() { l.any.ArchiveDataBlock(1<<22, f, f.Name()+".done") }) // far more than will arrive
					c.Cov("stop_with_unfinished_raw_block", 1)
					x.note("raw-data block of 2^22 samples requested")
					p1 := atomic.LoadInt64(&ord.process)
					for i := 0; i < 2000 && atomic.LoadInt64(&ord.process) < p1+3; i++ {
						time.Sleep(time.Millisecond) // some blocks go into the unfinished archive
					}
				}
				pending := make(chan bool, 1)
				go func() { pending <- x.request(func() { time.Sleep(2 * time.Millisecond) }) }()
				x.stop(1)
				<-pending
				c.Cov("stop_with_pending_request", 1)
				x.afterStop()
				if l.nchan > 0 {
					l.nchan = 2 // the same object is configured differently for the next run
					x.note("next run with %d channels", l.nchan)
				}
			}
		}
	}
	// whatever happened: the same object can be configured and started again and delivers blocks
	if !x.dead && kind != "erroring" {
		l.feed(true)
		if canFail && kind != "lancero-card" {
			time.Sleep(30 * time.Millisecond)
		}
		x.note("final restart")
		if x.start(true) {
			c.Cov("final_restarts", 1)
			x.stop(1)
			x.afterStop()
		}
	}
	if c.Idx < 16 {
		c.Describe("history: %v; observed orderings: %v", x.hist, ord.orderings())
	}
	c.Cov("points_held", ord.held)
	if !x.dead {
		c.Nontrivial()
	}
}

// vFreeUDPPort asks the kernel for a UDP port that is free right now (other shards and checks run concurrently).
// vFreeUDPPort picks a free UDP port below the kernel's ephemeral range (32768-60999 here). A port the kernel hands out on
// request (bind to port 0) can be handed to any other process on the machine the moment it is closed again, and the sources
// bind their port some time after it was picked, and bind it again when they are configured again: on a loaded machine
// that gave "address already in use" in an innocent case. Ports 10000-29999 are only taken by processes that ask for them
// by number; the candidates depend on the process id and a counter, and each is probed before use.
var vPortCounter int32

func vFreeUDPPort() int {
	for try := 0; try < 200; try++ {
		n := int(atomic.AddInt32(&vPortCounter, 1))
		port := 10000 + (os.Getpid()*97+n*131)%20000
		conn, err := net.ListenUDP("udp", &net.UDPAddr{IP: net.IPv4(127, 0, 0, 1), Port: port})
		if err != nil {
			continue
		}
		conn.Close()
		return port
	}
	conn, err := net.ListenUDP("udp", &net.UDPAddr{IP: net.IPv4(127, 0, 0, 1), Port: 0})
	if err != nil {
		return 40000 + os.Getpid()%20000
	}
	port := conn.LocalAddr().(*net.UDPAddr).Port
	conn.Close()
	return port
}

// vSlowLog discards the log but takes its time over Stop's "was called" line: writing a log line is a real
// suspension point (I/O), and a delay there widens whatever window exists around it.
type vSlowLog struct{}

func (vSlowLog) Write(b []byte) (int, error) {
	if strings.Contains(string(b), "Stop() was called") {
		time.Sleep(300 * time.Microsecond)
	}
	return len(b), nil
}

func vLifeSetup(tier string) {
	log.SetOutput(vSlowLog{})
	go func() {
		for {
			select {
			case <-vRecTap:
			case <-vSumTap:
			}
		}
	}()
}

func init() {
	vRegister("C10", &vProp{
		Cases: func(tier string) int {
			if tier == "thorough" {
				return 1200
			}
			return 120
		},
		Setup: vLifeSetup,
		Run:   vRunLife,
		Meta: vMeta{Level: "exploration",
			Rule: "case = (source, scenario, ordering constraint): Triangle, SimPulse, ErroringSource, a self-ending source (error block / closed channel), Abaco with scripted producers and over loopback UDP, Lancero with a scripted card, Roach over loopback UDP; scenarios: 2-5 start/stop cycles on one object (with writing in some), 2-4 concurrent Stop callers, Start while active, 1-2 failed Starts (hardware silent, card refusing in sampling or in StartRun) followed by a Start with data flowing, Stop racing or following self-termination (with and without writing active), a request pending while stopping; each ends with a restart of the same object. A verifPoint handler holds one goroutine at point A until point B has been passed (bounded, with fall-through) for pairs from {core.exit.err, core.exit.closed, deactivate.enter} x {stop.enter, stop.signalled, stop.waited} in both directions. Checked: refused second Start, Active + blocks after Start, every Stop returns (wait-state analysis), then Inactive, goroutine census clean, writing inactive, no file open below the output directory, restart delivers blocks; after a failed Start: Inactive, census clean, later Start succeeds; non-trivial = history completed; additions: Stop while the core loop is held busy, Start while a Stop is under way, runs paused at the end, restarts with other channel counts, sources ending themselves on a time-out (Roach 2 s keep-alive; Abaco over UDP with the program's own periods); one case in 20 is a history through the RPC layer's bookkeeping (in-package SourceControl, Triangle and SimPulse): while one source runs, Starts of the other, of the same and of an unknown source must be refused, and the following Stop must leave the source that was running Inactive with its core loop gone; the same histories end with the TDM source configured through its RPC request: refused (a card that does not exist), then valid, then Start/Stop",
			Assumptions: []string{"Stop during Start at the DataSource level is not generated (the RPC layer cannot produce it and the code documents it as unsupported)", "a worker goroutine counts as leaked if it is still there with the same frames 3 s and again 4.5 s after the last Stop returned",
				"sources whose Stop path discards their devices (Abaco, Roach) are configured again before every Start, as the RPC clients do"},
			Guards: map[string]map[string]int{
				"quick":    {"starts_delivering_blocks": 150, "stops_returned": 200, "after_stop_checks": 150, "concurrent_stop_groups": 15, "failed_starts": 8, "start_after_failed_start": 6, "stops_racing_self_termination": 8, "stops_after_self_termination": 8, "writing_started": 15, "final_restarts": 70, "device_release_checks": 30, "distinct:ordering": 10, "server_histories": 8, "server_starts_refused_while_running": 8, "server_lancero_reconfigurations": 4},
				"thorough": {"starts_delivering_blocks": 1500, "failed_starts": 150, "distinct:ordering": 20},
			}},
	})
}

// vFailedPrepareStart: a Start that fails in the PREPARATION steps (a source object that was never configured has no
// channels) must leave the object Inactive; the same object is then configured, started and stopped.
func vFailedPrepareStart(c *vCase, kind string, nchan int) {
	var ds DataSource
	var configure func() error
	if kind == "triangle" {
		ts := NewTriangleSource()
		ds = ts
		configure = func() error {
			return ts.Configure(&TriangleSourceConfig{Nchan: nchan, SampleRate: 10000, Min: 100, Max: 200})
		}
	} else {
		sp := NewSimPulseSource()
		ds = sp
		configure = func() error {
			return sp.Configure(&SimPulseSourceConfig{Nchan: nchan, SampleRate: 10000, Pedestal: 1000, Amplitudes: []float64{5000}, Nsamp: 1000})
		}
	}
	var err error
	if !vWatched(c, "Start", 20*time.Second, func() { err = Start(ds, nil, 4, 16) }) {
		return
	}
	if err == nil {
		// not this property's business whether an unconfigured source may start; stop it and go on
		vWatched(c, "Stop", 20*time.Second, func() { ds.Stop() })
		return
	}
	c.Cov("failed_starts_in_preparation", 1)
	if st := ds.GetState(); st != Inactive {
		c.Violate("c10:failed-prepare-not-inactive", "a Start of a never-configured %s source failed (%v) and left the state %v, not Inactive", kind, err, st)
		return
	}
	if err := configure(); err != nil {
		c.Violate("c10:failed-prepare-no-configure", "after a Start that failed in preparation the %s source refuses a valid configuration: %v", kind, err)
		return
	}
	if !vWatched(c, "Start", 20*time.Second, func() { err = Start(ds, nil, 4, 16) }) {
		return
	}
	if err != nil {
		c.Violate("c10:failed-prepare-no-restart", "after a Start that failed in preparation and a valid configuration the %s source does not start: %v", kind, err)
		return
	}
	if !ds.Running() {
		c.Violate("c10:failed-prepare-not-running", "the %s source started after a failed Start is not running", kind)
	}
	if !vWatched(c, "Stop", 20*time.Second, func() { ds.Stop() }) {
		return
	}
	if st := ds.GetState(); st != Inactive {
		c.Violate("c10:failed-prepare-stop-not-inactive", "the %s source started after a failed Start is %v after Stop", kind, st)
		return
	}
	c.Cov("start_after_failed_preparation", 1)
}
