package PKGNAME

// C17 — a running acquisition is free of data races. Oracle: the Go race detector (the test
// binary is built with -race; reports go to GORACE log files that the driver parses).
//
// Mode A: the real RunRPCServer + RunClientUpdater in this process, one JSON-RPC client over
// TCP (requests of one connection are served synchronously, i.e. a single client), sources
// Triangle, SimPulse and Abaco over real loopback UDP. Mode B: an in-package SourceControl
// wired like RunRPCServer does it, with a scripted Lancero card / scripted Abaco producers,
// requests issued by one goroutine calling the RPC methods. In both modes: real record and
// summary PUB sockets, triggers firing with group connections, LJH2.2+LJH3+OFF writing with
// projectors, raw-data block archiving, status publication and configuration saves every few
// tens of ms, several start/stop cycles. verifPoint sites yield/sleep pseudo-randomly.

import (
	"encoding/base64"
	"fmt"
	"net"
	"net/rpc"
	"net/rpc/jsonrpc"
	"os"
	"path/filepath"
	"reflect"
	"runtime"
	"strings"
	"sync"
	"sync/atomic"
	"syscall"
	"time"

	"github.com/spf13/viper"
	"github.com/usnistgov/dastard/packets"
	"gonum.org/v1/gonum/mat"
)

type vRaceEnv struct {
	ok       bool
	err      error
	client   *rpc.Client
	udpPort  int
	points   sync.Map // name -> *int64
	rng      uint64
	yieldOn  int32
	requests int64
	rngs     sync.Map     // hook point name -> *uint64 generator state
	longHold int32        // 1: the next core.process.end keeps the core loop busy for 120 ms
	dirMade  atomic.Value // func(): what to do when START has just made its run directory (stalled-disk workload)
}

var vRE vRaceEnv

func (e *vRaceEnv) count(name string) *int64 {
	if v, ok := e.points.Load(name); ok {
		return v.(*int64)
	}
	v, _ := e.points.LoadOrStore(name, new(int64))
	return v.(*int64)
}

func (e *vRaceEnv) get(name string) int64 {
	if name == "yields" { // summed over the per-point counters
		var n int64
		e.points.Range(func(k, v any) bool {
			if strings.HasPrefix(k.(string), "yields:") {
				n += atomic.LoadInt64(v.(*int64))
			}
			return true
		})
		return n
	}
	return atomic.LoadInt64(e.count(name))
}

// rndFor draws from a generator that belongs to one hook point. (One generator shared by all points was an atomic variable
// touched by every goroutine at every hook visit: to the race detector that is synchronisation between all of them, and it
// ordered - and so hid - unsynchronised accesses of the code under test that happened around hook visits.)
func (e *vRaceEnv) rndFor(name string) uint64 {
	v, ok := e.rngs.Load(name)
	if !ok {
		seed := atomic.LoadUint64(&e.rng)
		for _, ch := range []byte(name) {
			seed = seed*1099511628211 + uint64(ch)
		}
		p := new(uint64)
		*p = seed | 1
		v, _ = e.rngs.LoadOrStore(name, p)
	}
	st := v.(*uint64)
	for {
		old := atomic.LoadUint64(st)
		x := old
		x ^= x << 13
		x ^= x >> 7
		x ^= x << 17
		if atomic.CompareAndSwapUint64(st, old, x) {
			return x
		}
	}
}

func (e *vRaceEnv) rnd() uint64 {
	for {
		old := atomic.LoadUint64(&e.rng)
		x := old
		x ^= x << 13
		x ^= x >> 7
		x ^= x << 17
		if atomic.CompareAndSwapUint64(&e.rng, old, x) {
			return x
		}
	}
}

func vRaceHandlers() *verifHandlers {
	e := &vRE
	return &verifHandlers{
		Point: func(name string) {
			atomic.AddInt64(e.count(name), 1)
			if atomic.LoadInt32(&e.yieldOn) == 0 {
				return
			}
			if name == "write.start.dirmade" {
				if f, _ := e.dirMade.Load().(func()); f != nil {
					f()
				}
				return
			}
			if name == "core.process.end" && atomic.CompareAndSwapInt32(&e.longHold, 1, 0) {
				time.Sleep(120 * time.Millisecond)
				atomic.AddInt64(e.count("yields:"+name), 1) // (a counter per point, for the same reason as the generators)
				return
			}
			if (name == "abaco.block.assemble" || name == "lancero.block.assemble") && e.rndFor(name)%8 == 0 {
				// now and then block assembly falls a whole read period behind, so that the reader's next tick runs beside it
				time.Sleep(12 * time.Millisecond)
				atomic.AddInt64(e.count("yields:"+name), 1) // (a counter per point, for the same reason as the generators)
				return
			}
			switch r := e.rndFor(name) % 20; {
			case r < 8:
			case r < 16:
				runtime.Gosched()
				atomic.AddInt64(e.count("yields:"+name), 1) // (a counter per point, for the same reason as the generators)
			default:
				time.Sleep(time.Duration(20+e.rndFor(name)%400) * time.Microsecond)
				atomic.AddInt64(e.count("yields:"+name), 1) // (a counter per point, for the same reason as the generators)
			}
		},
		Span: func(name string) func() {
			atomic.AddInt64(e.count("span:"+name), 1)
			return func() {}
		},
		Duration: func(name string, d time.Duration) time.Duration {
			switch name {
			case "updater.saveDelay":
				return 30 * time.Millisecond
			case "abaco.readPeriod":
				return 10 * time.Millisecond // also used with real UDP, where the sender cannot be throttled: 1 s of slack
			case "lancero.readPeriod":
				return 4 * time.Millisecond
			case "abaco.panicTime":
				return 60 * time.Second
			}
			return d
		},
	}
}

func vRaceSetup(tier string) {
	e := &vRE
	e.rng = 88172645463325252
	verifInstall(vRaceHandlers())
	home, _ := os.UserHomeDir()
	os.MkdirAll(filepath.Join(home, ".dastard"), 0o755)
	cfg := filepath.Join(home, ".dastard", "config.yaml")
	os.WriteFile(cfg, []byte("verbose: false\n"), 0o644)
	viper.Reset()
	viper.SetConfigFile(cfg)
	if err := viper.ReadInConfig(); err != nil {
		e.err = err
		return
	}
	base := vPickPortBase(7)
	setPortnumbers(base)
	e.udpPort = vFreeUDPPort()
	abort := make(chan struct{})
	go RunClientUpdater(Ports.Status, abort)
	RunRPCServer(Ports.RPC, false)
	var err error
	for i := 0; i < 100; i++ {
		e.client, err = jsonrpc.Dial("tcp", fmt.Sprintf("127.0.0.1:%d", Ports.RPC))
		if err == nil {
			break
		}
		time.Sleep(50 * time.Millisecond)
	}
	if err != nil {
		e.err = err
		return
	}
	e.ok = true
}

// vCaller issues one client's requests: over JSON-RPC (mode A) or by calling the methods (mode B).
type vCaller struct {
	client *rpc.Client
	sc     *SourceControl
	c      *vCase
	errs   []string
}

func (k *vCaller) call(method string, args any, reply any) error {
	atomic.AddInt64(&vRE.requests, 1)
	var err error
	if k.client != nil {
		err = k.client.Call("SourceControl."+method, args, reply)
	} else {
		m := reflect.ValueOf(k.sc).MethodByName(method)
		av := reflect.ValueOf(args)
		want := m.Type().In(0)
		if av.Type() != want {
			if want.Kind() == reflect.Ptr && av.Type() == want.Elem() {
				p := reflect.New(want.Elem())
				p.Elem().Set(av)
				av = p
			} else if av.Kind() == reflect.Ptr && av.Type().Elem() == want {
				av = av.Elem()
			}
		}
		out := m.Call([]reflect.Value{av, reflect.ValueOf(reply)})
		if !out[0].IsNil() {
			err = out[0].Interface().(error)
		}
	}
	return err
}

// must records an unexpected error of a request that is valid use (reported as inconclusive: C11 judges replies).
func (k *vCaller) must(method string, args any, reply any) bool {
	if err := k.call(method, args, reply); err != nil {
		k.errs = append(k.errs, fmt.Sprintf("%s: %v", method, err))
		return false
	}
	return true
}

func vMatB64(m *mat.Dense) string {
	b, _ := m.MarshalBinary()
	return base64.StdEncoding.EncodeToString(b)
}

type vRaceWorkload struct {
	name    string
	mode    byte // 'A' or 'B'
	source  string
	nchan   int
	lancero bool
}

// vRaceSession: after the source is configured: Start, the full single-client request script, Stop.
func vRaceSession(k *vCaller, w vRaceWorkload, cycle int, dir string, reconfigure func() bool) bool {
	var okay bool
	var s string
	r := k.c.R
	nap := func() { time.Sleep(time.Duration(5+r.Intn(25)) * time.Millisecond) }
	if !reconfigure() {
		return false
	}
	src := w.source
	if !k.must("Start", &src, &okay) {
		return false
	}
	nap()
	if w.name == "triangle-long-blocks" {
		// few requests, long blocks: what matters here is what one long block makes the pipeline emit
		all := []int{0, 1}
		fts := FullTriggerState{ChannelIndices: all}
		fts.AutoTrigger = true
		k.must("ConfigureTriggers", &fts, &okay)
		wc := WriteControlConfig{Request: "START", Path: dir, WriteLJH22: true}
		k.must("WriteControl", &wc, &okay)
		for i := 0; i < 5; i++ {
			time.Sleep(time.Second)
			k.must("SendAllStatus", &s, &okay)
		}
		k.must("WriteControl", &WriteControlConfig{Request: "STOP"}, &okay)
		k.must("Stop", &s, &okay)
		return true
	}
	nsamp, npre := 64, 16
	k.must("ConfigurePulseLengths", SizeObject{Nsamp: nsamp, Npre: npre}, &okay)
	all := make([]int, w.nchan)
	for i := range all {
		all[i] = i
	}
	fts := FullTriggerState{ChannelIndices: all}
	fts.AutoTrigger = true
	fts.AutoDelay = 0
	fts.LevelTrigger, fts.LevelRising, fts.LevelLevel = true, true, 300
	fts.EdgeTrigger, fts.EdgeRising, fts.EdgeLevel = true, true, 50
	k.must("ConfigureTriggers", &fts, &okay)
	nap()
	// edge-multi on the last channel (the RPC-compatible fields; its search state is rewritten on every block)
	emt := FullTriggerState{ChannelIndices: []int{w.nchan - 1}}
	emt.EdgeMulti = true
	emt.EdgeMultiLevel = 30
	emt.EdgeMultiVerifyNMonotone = 1
	emt.EdgeMultiMakeShortRecords = cycle%2 == 1
	k.must("ConfigureTriggers", &emt, &okay)
	nap()
	// and a change on another channel while edge-multi is running
	one := FullTriggerState{ChannelIndices: []int{0}}
	one.AutoTrigger = true
	one.AutoDelay = time.Millisecond
	k.must("ConfigureTriggers", &one, &okay)
	if w.nchan >= 3 {
		gts := GroupTriggerState{Connections: map[int][]int{0: {1, 2}}}
		k.must("AddGroupTriggerCoupling", gts, &okay)
	}
	if w.lancero {
		yes := true
		k.must("CoupleErrToFB", &yes, &okay)
		mfo := MixFractionObject{ChannelIndices: []int{1, 3}, MixFractions: []float64{0.5, -0.25}}
		k.must("ConfigureMixFraction", &mfo, &okay)
	}
	// projectors on two channels
	nb := 3
	pd := make([]float64, nb*nsamp)
	bd := make([]float64, nsamp*nb)
	for i := range pd {
		pd[i] = r.NormFloat64() / float64(nsamp)
		bd[i] = r.NormFloat64()
	}
	for _, ch := range []int{0, 1} { // not the edge-multi channel: projections of variable-length records are not implemented (the code panics)
		pbo := ProjectorsBasisObject{ChannelIndex: ch, ProjectorsBase64: vMatB64(mat.NewDense(nb, nsamp, pd)), BasisBase64: vMatB64(mat.NewDense(nsamp, nb, bd)), ModelDescription: "verif"}
		k.must("ConfigureProjectorsBasis", &pbo, &okay)
	}
	nap()
	wc := WriteControlConfig{Request: "START", Path: dir, WriteLJH22: true, WriteLJH3: true, WriteOFF: true}
	k.must("WriteControl", &wc, &okay)
	nap()
	k.must("SetExperimentStateLabel", &StateLabelConfig{Label: fmt.Sprintf("state%d", cycle), WaitForError: true}, &okay)
	// the documented fire-and-forget mode of the state label, and status reads right behind it
	k.must("SetExperimentStateLabel", &StateLabelConfig{Label: fmt.Sprintf("async%d", cycle), WaitForError: false}, &okay)
	for i := 0; i < 4; i++ {
		var zz int
		var ss string
		k.call("ReadComment", &zz, &ss) // there may be no comment yet: the reply does not matter here
		time.Sleep(time.Duration(50+r.Intn(300)) * time.Microsecond)
	}
	comment := "a comment"
	k.must("WriteComment", &comment, &okay)
	zero := 0
	k.must("ReadComment", &zero, &s)
	k.must("StoreRawDataBlock", 300, &s)
	rawfile := s
	nap()
	k.must("SendAllStatus", &s, &okay)
	k.must("WriteControl", &WriteControlConfig{Request: "PAUSE"}, &okay)
	nap()
	k.must("WriteControl", &WriteControlConfig{Request: "UNPAUSE resumed"}, &okay)
	if w.lancero {
		// a mix request that has to wait a long time (some 25 read periods) for its answer: the core loop is held busy after its
		// next block, so block assembly cannot hand over the following block nor look at the request
		atomic.StoreInt32(&vRE.longHold, 1)
		time.Sleep(20 * time.Millisecond) // by now the loop is being held and block assembly is waiting to hand over the next block
		mfo := MixFractionObject{ChannelIndices: []int{1}, MixFractions: []float64{0}}
		k.must("ConfigureMixFraction", &mfo, &okay)
		// the client stays quiet until the loop has been released and the request has been served: anything it did now (the next
		// request takes the source's locks, the reset below is an atomic the loop reads) would order this request's goroutine
		// before the data loop's next steps by accident, and hide unsynchronised accesses made while giving the answer
		time.Sleep(130 * time.Millisecond)
		atomic.StoreInt32(&vRE.longHold, 0)
		k.c.Cov("mix_requests_kept_waiting", 1)
	}
	k.must("ReadComment", &zero, &s)
	nap()
	for i := 0; i < 1600; i++ { // one archive request at a time: wait for the first file to be finished
		if _, err := os.Stat(rawfile); err == nil {
			break
		}
		time.Sleep(5 * time.Millisecond)
	}
	k.must("StoreRawDataBlock", 600, &s) // small enough to complete well before the source is stopped
	rawfile2 := s
	if w.nchan >= 3 {
		gts := GroupTriggerState{Connections: map[int][]int{0: {1}}}
		k.must("DeleteGroupTriggerCoupling", &gts, &okay)
	}
	nap()
	nap()
	k.must("SendAllStatus", &s, &okay)
	if cycle%2 == 0 {
		k.must("WriteControl", &WriteControlConfig{Request: "STOP"}, &okay)
		k.must("ConfigurePulseLengths", SizeObject{Nsamp: 48, Npre: 12}, &okay)
	} else {
		// the source is stopped while files are being written: the core loop stops the writing itself on its way out
		k.c.Cov("sources_stopped_while_writing", 1)
	}
	dummy := false
	k.must("StopTriggerCoupling", &dummy, &okay)
	nap()
	for i := 0; i < 1200; i++ {
		if _, err := os.Stat(rawfile2); err == nil {
			k.c.Cov("raw_blocks_completed", 2)
			break
		}
		time.Sleep(5 * time.Millisecond)
	}
	k.must("Stop", &s, &okay)
	os.Remove(rawfile)
	os.Remove(rawfile2)
	return true
}

// vRaceStalledDisk: a triangle source with back-to-back 16-sample records on two channels; the LJH2.2 file of chan1 is a FIFO with
// a 4 KiB pipe that is not read until the end of the run, chan0's file is an ordinary file (it tells how many records were offered).
func vRaceStalledDisk(k *vCaller, w vRaceWorkload, dir string) {
	e := &vRE
	var okay bool
	var s string
	if !k.must("ConfigureTriangleSource", &TriangleSourceConfig{Nchan: w.nchan, SampleRate: 200000, Min: 100, Max: 8100}, &okay) {
		return
	}
	src := w.source
	if !k.must("Start", &src, &okay) {
		return
	}
	nsamp, npre := 16, 4
	k.must("ConfigurePulseLengths", SizeObject{Nsamp: nsamp, Npre: npre}, &okay)
	fts := FullTriggerState{ChannelIndices: []int{0, 1}}
	fts.AutoTrigger = true
	k.must("ConfigureTriggers", &fts, &okay)
	var mu sync.Mutex
	var sink *vPipeSink
	var fifo string
	var sinkErr error
	e.dirMade.Store(func() {
		mu.Lock()
		defer mu.Unlock()
		if sink != nil || sinkErr != nil {
			return
		}
		days, _ := os.ReadDir(dir)
		for _, d := range days {
			runs, _ := os.ReadDir(filepath.Join(dir, d.Name()))
			for _, rd := range runs {
				if rd.IsDir() && len(rd.Name()) == 4 {
					fifo = filepath.Join(dir, d.Name(), rd.Name(), fmt.Sprintf("%s_run%s_chan1.ljh", d.Name(), rd.Name()))
					sink, sinkErr = newPipeSink(fifo)
					return
				}
			}
		}
	})
	defer e.dirMade.Store(func() {})
	k.must("WriteControl", &WriteControlConfig{Request: "START", Path: dir, WriteLJH22: true}, &okay)
	mu.Lock()
	sk, serr := sink, sinkErr
	mu.Unlock()
	if sk == nil {
		k.errs = append(k.errs, fmt.Sprintf("the FIFO for the stalled file could not be planted: %v", serr))
		k.must("Stop", &s, &okay)
		return
	}
	// offered records are counted in the other channel's file. The queue holds 1000 writes, an LJH2.2 record takes three: 1500
	// offered records overflow it several times. The data loop itself stops at its next periodic flush (it waits for the stalled
	// file), which may come after one block or after twenty: wait for 1500 records, or for 500 and no growth for a second; at most 20 s
	other := strings.Replace(fifo, "_chan1.ljh", "_chan0.ljh", 1)
	recSize := 16 + 2*nsamp
	hdr := -1
	offered := func() int {
		fi, err := os.Stat(other)
		if err != nil {
			return 0
		}
		if hdr < 0 {
			b, _ := os.ReadFile(other)
			if h := strings.Index(string(b), "#End of Header\n"); h >= 0 {
				hdr = h + len("#End of Header\n")
			} else {
				return 0
			}
		}
		return (int(fi.Size()) - hdr) / recSize
	}
	last, still := 0, 0
	for i := 0; i < 400 && offered() < 1500; i++ {
		time.Sleep(50 * time.Millisecond)
		if n := offered(); n == last {
			still++
		} else {
			last, still = n, 0
		}
		if last >= 500 && still >= 20 {
			break
		}
	}
	nOffered := offered()
	k.must("SendAllStatus", &s, &okay)
	sk.release()
	time.Sleep(100 * time.Millisecond)
	k.must("WriteControl", &WriteControlConfig{Request: "STOP"}, &okay)
	sk.markClosed()
	<-sk.done
	k.must("Stop", &s, &okay)
	got := sk.total()
	if nOffered >= 500 {
		k.c.Cov("stalled_file_records_offered", nOffered)
		h := strings.Index(string(sk.got), "#End of Header\n")
		if h >= 0 {
			kept := (got - h - len("#End of Header\n")) / recSize
			k.c.Cov("stalled_file_records_kept", kept)
			if kept < offered() {
				k.c.Cov("runs_with_records_refused_by_a_full_queue", 1)
			}
		}
	} else {
		ents, _ := os.ReadDir(filepath.Dir(fifo))
		var names []string
		for _, en := range ents {
			fi, _ := en.Info()
			names = append(names, fmt.Sprintf("%s:%d", en.Name(), fi.Size()))
		}
		k.errs = append(k.errs, fmt.Sprintf("only %d records were offered while the file was stalled (%v, header %d)", nOffered, names, hdr))
	}
	syscall.Close(sk.fd)
}

// ---------------------------------------------------------------- UDP packet sender for the Abaco workload

func vUDPSender(port int, stop chan struct{}, done *sync.WaitGroup) {
	defer done.Done()
	conn, err := net.Dial("udp", fmt.Sprintf("127.0.0.1:%d", port))
	if err != nil {
		return
	}
	defer conn.Close()
	groups := [][2]int{{0, 3}, {8, 2}}
	fpp := 8
	tick := time.NewTicker(time.Millisecond)
	defer tick.Stop()
	for idx := 0; ; idx++ {
		select {
		case <-stop:
			return
		case <-tick.C:
		}
		for gi, g := range groups {
			p := packets.NewPacket(10, uint32(gi), uint32(1000+idx-1), g[0])
			p.SetTimestamp(&packets.PacketTimestamp{T: uint64(1000000 + idx*fpp*12500), Rate: 1e8})
			d := make([]int16, fpp*g[1])
			for f := 0; f < fpp; f++ {
				for c := 0; c < g[1]; c++ {
					ph := (idx*fpp + f) % 200
					v := 100 + 5*ph
					if ph > 100 {
						v = 100 + 5*(200-ph)
					}
					d[f*g[1]+c] = int16(v + 10*c)
				}
			}
			p.NewData(d, []int16{int16(g[1])})
			conn.Write(p.Bytes())
		}
	}
}

// ---------------------------------------------------------------- mode B plumbing

func vNewInPackageControl() (*SourceControl, chan struct{}) {
	sc := NewSourceControl()
	sc.clientUpdates = clientMessageChan
	ms := newMapServer()
	ms.clientUpdates = clientMessageChan
	sc.mapServer = ms
	sc.status.Npresamp, sc.status.Nsamples = 400, 800
	sc.status.SamplePeriod = 10 * time.Microsecond
	sc.ActiveSource = sc.triangle
	stop := make(chan struct{})
	go func() { // what RunRPCServer's heartbeat goroutine does
		bt := time.NewTicker(200 * time.Millisecond)
		defer bt.Stop()
		for {
			select {
			case <-stop:
				return
			case <-bt.C:
				sc.broadcastHeartbeat()
			case h := <-sc.heartbeats:
				sc.totalData.HWactualMB += h.HWactualMB
				sc.totalData.DataMB += h.DataMB
				sc.totalData.Time += h.Time
				sc.totalData.Running = h.Running
			}
		}
	}()
	return sc, stop
}

// an endless well-formed card for mode B (chunks of a few frames per read)
func vEndlessCard(nrows, ncols int, seed uint64) *vCard {
	s := &vCardScript{devnum: 0, nrows: nrows, ncols: ncols, nsampADC: 1, flagStyle: 0}
	fs := nrows * ncols * 4
	card := &vCard{s: s, frameSize: fs, t0: time.Unix(vT0Unix, 0), flags: map[int][]bool{}, rng: seed | 1}
	card.bytePer = float64(2000*nrows) / 125.0 * 1000 / float64(fs)
	card.realClock = true
	return card
}

func vRunRace(c *vCase) {
	e := &vRE
	if !e.ok {
		c.Inconclusive("setup", "race environment not available: %v", e.err)
		return
	}
	workloads := []vRaceWorkload{
		{name: "triangle", mode: 'A', source: "TRIANGLESOURCE", nchan: 4},
		{name: "simpulse", mode: 'A', source: "SIMPULSESOURCE", nchan: 4},
		{name: "abaco-udp", mode: 'A', source: "ABACOSOURCE", nchan: 5},
		{name: "lancero-card", mode: 'B', source: "LANCEROSOURCE", nchan: 12, lancero: true},
		{name: "abaco-scripted", mode: 'B', source: "ABACOSOURCE", nchan: 5},
		{name: "triangle-long-blocks", mode: 'A', source: "TRIANGLESOURCE", nchan: 2},
		{name: "selfend", mode: 'B', source: "SELFEND", nchan: 3},
		{name: "erroring-rpc", mode: 'A', source: "ERRORINGSOURCE", nchan: 1},
		{name: "stalled-disk", mode: 'A', source: "TRIANGLESOURCE", nchan: 2},
	}
	w := workloads[c.Idx%len(workloads)]
	c.Describe("workload=%s seed=%d idx=%d", w.name, c.Seed, c.Idx)
	atomic.StoreUint64(&e.rng, uint64(c.R.Int63())|1)
	e.rngs.Range(func(k, _ any) bool { e.rngs.Delete(k); return true }) // the per-point generators are re-seeded from the case
	atomic.StoreInt32(&e.yieldOn, 1)
	defer atomic.StoreInt32(&e.yieldOn, 0)
	before := map[string]int64{}
	for _, n := range []string{"core.process.end", "core.request.end", "yields", "save.done", "span:effect.archive"} {
		before[n] = e.get(n)
	}
	reqBefore := atomic.LoadInt64(&e.requests)
	dir := filepath.Join(c.Dir, "out")
	os.MkdirAll(dir, 0o755)
	k := &vCaller{c: c}
	var okay bool
	cycles := 2
	var reconfigure func() bool
	cleanup := func() {}
	switch w.name {
	case "triangle":
		k.client = e.client
		reconfigure = func() bool {
			return k.must("ConfigureTriangleSource", &TriangleSourceConfig{Nchan: w.nchan, SampleRate: 200000, Min: 100, Max: 600}, &okay)
		}
	case "selfend":
		// a source that ends by itself (error block or closed channel) while the client keeps sending requests
		sc, stop := vNewInPackageControl()
		k.sc = sc
		cleanup = func() { close(stop) }
		cycles = 0
		for cyc := 0; cyc < 4; cyc++ {
			self := vNewSelfEnd(3, cyc%2, 0)
			sc.ActiveSource = self
			sc.status.SourceName = "SelfEnd"
			sc.status.Npresamp, sc.status.Nsamples = 8, 32
			if err := Start(self, sc.queuedRequests, 8, 32); err != nil {
				k.errs = append(k.errs, fmt.Sprintf("Start(selfend): %v", err))
				break
			}
			sc.isSourceActive = true
			sc.status.Running = true
			sc.status.Nchannels = 3
			fts := FullTriggerState{ChannelIndices: []int{0, 1, 2}}
			fts.AutoTrigger = true
			var s string
			k.must("ConfigureTriggers", &fts, &okay)
			k.must("SendAllStatus", &s, &okay)
			time.Sleep(time.Duration(5+c.R.Intn(10)) * time.Millisecond)
			close(self.endNow)
			// requests racing the end of the source: their replies do not matter here (C11 judges them)
			for i := 0; i < 12; i++ {
				switch i % 4 {
				case 0:
					k.call("SendAllStatus", &s, &okay)
				case 1:
					k.call("ConfigureTriggers", &fts, &okay)
				case 2:
					k.call("ConfigurePulseLengths", SizeObject{Nsamp: 32 + 8*(i%3), Npre: 8}, &okay)
				case 3:
					k.call("WriteControl", &WriteControlConfig{Request: "PAUSE"}, &okay)
				}
				if i%3 == 2 {
					time.Sleep(time.Duration(c.R.Intn(600)) * time.Microsecond)
				}
			}
			k.call("Stop", &s, &okay)
			for i := 0; i < 3000 && self.GetState() != Inactive; i++ {
				time.Sleep(time.Millisecond)
			}
			c.Cov("self_terminations_with_racing_requests", 1)
		}
	case "erroring-rpc":
		k.client = e.client
		cycles = 0
		for cyc := 0; cyc < 3; cyc++ {
			src := w.source
			var s string
			if !k.must("Start", &src, &okay) {
				break
			}
			for i := 0; i < 4; i++ {
				k.call("SendAllStatus", &s, &okay)
			}
			k.call("WaitForStopTestingOnly", &s, &okay)
			k.call("SendAllStatus", &s, &okay)
			k.call("Stop", &s, &okay)
			c.Cov("self_terminations_with_racing_requests", 1)
		}
		// once more, and this time the client says nothing for longer than the server's 2 s heartbeat period while the server still
		// believes the source to be running; then a new source must start, deliver data and stop as usual
		src := w.source
		var s string
		if k.must("Start", &src, &okay) {
			time.Sleep(2600 * time.Millisecond)
			k.call("Stop", &s, &okay)
			if k.must("ConfigureTriangleSource", &TriangleSourceConfig{Nchan: 2, SampleRate: 100000, Min: 100, Max: 600}, &okay) {
				tri := "TRIANGLESOURCE"
				if k.must("Start", &tri, &okay) {
					k.must("StoreRawDataBlock", 300, &s)
					raw := s
					for i := 0; i < 1600; i++ {
						if _, err := os.Stat(raw); err == nil {
							c.Cov("raw_blocks_completed", 1)
							break
						}
						time.Sleep(5 * time.Millisecond)
					}
					k.must("Stop", &s, &okay)
					os.Remove(raw)
				}
			}
			c.Cov("silences_longer_than_a_heartbeat_after_a_self_termination", 1)
		}
	case "stalled-disk":
		// one channel's LJH file is a FIFO nobody reads for a while: that file's write queue (1000 slots) fills up and
		// records are offered to a full queue, while the other channel's file is written normally
		k.client = e.client
		cycles = 0
		vRaceStalledDisk(k, w, dir)
	case "triangle-long-blocks":
		// 2.2 s blocks: one block crosses two of the 1-second trigger-rate reporting boundaries
		k.client = e.client
		cycles = 1
		reconfigure = func() bool {
			return k.must("ConfigureTriangleSource", &TriangleSourceConfig{Nchan: w.nchan, SampleRate: 1000, Min: 100, Max: 1200}, &okay)
		}
	case "simpulse":
		k.client = e.client
		reconfigure = func() bool {
			return k.must("ConfigureSimPulseSource", &SimPulseSourceConfig{Nchan: w.nchan, SampleRate: 100000, Pedestal: 100, Amplitudes: []float64{3000, 6000}, Nsamp: 1000}, &okay)
		}
	case "abaco-udp":
		k.client = e.client
		stop := make(chan struct{})
		var wg sync.WaitGroup
		wg.Add(1)
		go vUDPSender(e.udpPort, stop, &wg)
		cleanup = func() { close(stop); wg.Wait() }
		reconfigure = func() bool {
			return k.must("ConfigureAbacoSource", &AbacoSourceConfig{HostPortUDP: []string{fmt.Sprintf("127.0.0.1:%d", e.udpPort)}}, &okay)
		}
	case "lancero-card":
		sc, stop := vNewInPackageControl()
		k.sc = sc
		cleanup = func() { close(stop) }
		reconfigure = func() bool {
			card := vEndlessCard(3, 2, uint64(c.R.Int63()))
			ls := sc.lancero
			card.backlog = func() int { return len(ls.buffersChan) }
			ls.nsamp = 1
			dev := &LanceroDevice{devnum: 0, nrows: 3, lsync: 2000, clockMHz: 125, card: card}
			ls.devices = map[int]*LanceroDevice{0: dev}
			ls.active = []*LanceroDevice{dev}
			ls.ncards, ls.clockMHz, ls.firstRowChanNum = 1, 125, 1
			ls.configError = nil
			return true
		}
	case "abaco-scripted":
		sc, stop := vNewInPackageControl()
		k.sc = sc
		cleanup = func() { close(stop) }
		reconfigure = func() bool {
			s := &vAbScript{fpp: 8, bits: 16, nSample: 6, nScript: 0, nprod: 2}
			s.groups = []vAbGroup{{first: 0, nchan: 3, snBase: 100, producer: 0, lost: map[int]bool{}}, {first: 8, nchan: 2, snBase: 5000, producer: 1, lost: map[int]bool{}}}
			run := &vAbRun{s: s, nextIdx: []int{6, 6}, delivered: make([][]int, 2), calls: make([]int, 2), starts: make([]int, 2), stops: make([]int, 2)}
			run.backlog = func() int { return len(sc.abaco.buffersChan) }
			run.extEvery = 3 // external-trigger packets arrive too: the reader queues them, block assembly converts them
			sc.abaco.producers = []PacketProducer{&vAbProducer{run: run, id: 0}, &vAbProducer{run: run, id: 1}}
			return true
		}
	}
	for cyc := 0; cyc < cycles; cyc++ {
		if !vRaceSession(k, w, cyc, dir, reconfigure) {
			break
		}
	}
	if w.mode == 'B' && reconfigure != nil && len(k.errs) == 0 && (w.name == "abaco-scripted" || w.name == "lancero-card") {
		// a handful of short runs: Stop arrives at arbitrary moments of the producer's read tick
		for i := 0; i < 8; i++ {
			if !reconfigure() {
				break
			}
			src := w.source
			var s string
			if !k.must("Start", &src, &okay) {
				break
			}
			time.Sleep(time.Duration(1+c.R.Intn(25)) * time.Millisecond)
			k.must("Stop", &s, &okay)
			c.Cov("short_runs", 1)
		}
	}
	cleanup()
	atomic.StoreInt32(&e.yieldOn, 0)
	c.Describe("blocks=%d requests=%d yields=%d saves=%d", e.get("core.process.end")-before["core.process.end"], atomic.LoadInt64(&e.requests)-reqBefore,
		e.get("yields")-before["yields"], e.get("save.done")-before["save.done"])
	c.Cov("abaco_external_trigger_entries", int(atomic.SwapInt64(&vAbExtSentTotal, 0)))
	c.Cov("workload_"+w.name, 1)
	c.Cov("blocks_processed", int(e.get("core.process.end")-before["core.process.end"]))
	c.Cov("requests_run_in_core_loop", int(e.get("core.request.end")-before["core.request.end"]))
	c.Cov("requests_issued", int(atomic.LoadInt64(&e.requests)-reqBefore))
	c.Cov("yields_injected", int(e.get("yields")-before["yields"]))
	c.Cov("config_saves", int(e.get("save.done")-before["save.done"]))
	c.Cov("raw_block_requests", int(e.get("span:effect.archive")-before["span:effect.archive"]))
	nfiles := 0
	filepath.Walk(dir, func(p string, info os.FileInfo, err error) error {
		if err == nil && !info.IsDir() && info.Size() > 0 {
			nfiles++
		}
		return nil
	})
	c.Cov("output_files_written", nfiles)
	if len(k.errs) > 0 {
		c.Inconclusive("request-failed", "workload %s: valid requests failed, so the workload did not run as planned: %v", w.name, k.errs)
		return
	}
	c.Nontrivial()
}

func init() {
	vRegister("C17", &vProp{
		Cases: func(tier string) int {
			if tier == "thorough" {
				return 162
			}
			return 27
		},
		Setup: vRaceSetup,
		Run:   vRunRace,
		Meta: vMeta{Level: "exploration",
			Rule:        "case = one workload (triangle, triangle with 2.2 s blocks, simpulse, abaco over loopback UDP, a source whose Start fails, and a triangle source with one output file on a FIFO that is not read until its write queue has refused records, all against the real RunRPCServer via one JSON-RPC connection; scripted Lancero card, scripted two-producer Abaco and a self-ending source against an in-package SourceControl wired like RunRPCServer) x one yield seed: two start/stop cycles, each with pulse-length change, edge+level+auto triggers on all channels, edge-multi on one channel, group-trigger connections, err->fb coupling and mix changes (Lancero; one of them kept waiting 25 read periods by a busy core loop, with a quiet client afterwards), projectors on two channels, START of LJH2.2+LJH3+OFF writing, state label, comment write/read, two raw-data blocks, SENDALL, PAUSE/UNPAUSE, STOP, while RunClientUpdater publishes and saves the configuration every 30 ms; verifPoint sites yield or sleep pseudo-randomly. The binary is race-instrumented; every DATA RACE report with a repository frame is a violation (de-duplicated by the pair of innermost/outermost repository functions); non-trivial = workload ran without a failed request",
			Assumptions: []string{"only executed accesses are seen; libzmq (cgo) is not instrumented", "single client: one JSON-RPC connection or one calling goroutine"},
			Guards: map[string]map[string]int{
				"quick":    {"blocks_processed": 300, "requests_issued": 300, "yields_injected": 500, "output_files_written": 50, "config_saves": 5, "raw_block_requests": 20, "raw_blocks_completed": 20, "workload_triangle": 1, "workload_simpulse": 1, "workload_abaco-udp": 1, "workload_lancero-card": 1, "workload_abaco-scripted": 1, "workload_triangle-long-blocks": 1, "workload_selfend": 1, "workload_erroring-rpc": 1, "workload_stalled-disk": 1, "runs_with_records_refused_by_a_full_queue": 1, "self_terminations_with_racing_requests": 6},
				"thorough": {"blocks_processed": 3000, "requests_issued": 3000},
			}},
	})
}
