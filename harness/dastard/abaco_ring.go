package PKGNAME

// The Abaco source's shared-memory device (AbacoRing) over a real shared-memory ring: the consumer side of C18 as abaco.go uses
// it (discard to the packet stride when the source starts, size-constrained reads of whole packets). The writer is the harness,
// playing the card's driver: it publishes the packet stream in pieces that do not respect packet boundaries.

import (
	"fmt"
	"os"

	"github.com/usnistgov/dastard/packets"
	"github.com/usnistgov/dastard/ringbuffer"
)

func vRunAbacoRingDevice(c *vCase) {
	r := c.R
	const psize = 8192
	name := fmt.Sprintf("verif_ar_%d_%d", os.Getpid(), c.Idx)
	w, err := ringbuffer.NewRingBuffer(name+"_buffer", name+"_description")
	if err != nil {
		c.Inconclusive("setup", "NewRingBuffer: %v", err)
		return
	}
	size := vPick(r, 1<<18, 1<<19, (1<<18)+3*psize, (1<<18)+1000)
	if err := w.Create(size); err != nil {
		c.Inconclusive("setup", "Create(%d): %v", size, err)
		return
	}
	defer w.Unlink()
	defer w.Close()
	nchan := vPick(r, 1, 2, 4, 8)
	frames := vPick(r, 8, 50, 200)
	c.Describe("ring device: ring of %d bytes, packets of %d channels x %d frames padded to %d bytes, seed=%d idx=%d", size, nchan, frames, psize, c.Seed, c.Idx)
	packet := func(k int) []byte {
		p := packets.NewPacket(10, 3, uint32(1000+k-1), 0) // (NewData advances the sequence number)
		p.SetTimestamp(&packets.PacketTimestamp{T: uint64(1000000 + k*frames*100), Rate: 1e8})
		d := make([]int16, nchan*frames)
		for i := range d {
			d[i] = int16(vAbVal(i%nchan, k*frames+i/nchan))
		}
		p.NewData(d, []int16{int16(nchan)})
		b := p.Bytes()
		return append(b, make([]byte, psize-len(b)%psize)...)[:psize]
	}
	var wpos, rpos int // bytes published by the writer / consumed by the device (model)
	var hist []string
	note := func(f string, a ...any) {
		hist = append(hist, fmt.Sprintf(f, a...))
		if len(hist) > 30 {
			hist = hist[len(hist)-30:]
		}
	}
	var cur []byte // the packet being published
	write := func(n int) {
		for n > 0 {
			if len(cur) == 0 {
				cur = packet(wpos / psize)
			}
			k := n
			if k > len(cur) {
				k = len(cur)
			}
			if w.BytesWriteable() < k {
				return // the ring is full: the driver waits
			}
			m, err := w.Write(cur[:k])
			if err != nil || m != k {
				return
			}
			cur = cur[k:]
			wpos += k
			n -= k
		}
	}
	piece := func() int {
		return vPick(r, psize, 2*psize, 3000, 5192, 100, 1, psize-1, psize+1, 4*psize+77, r.Intn(3*psize))
	}
	dev := &AbacoRing{ringnum: -1}
	if dev.ring, err = ringbuffer.NewRingBuffer(name+"_buffer", name+"_description"); err != nil {
		c.Inconclusive("setup", "NewRingBuffer: %v", err)
		return
	}
	// what is in the ring before the source starts: nothing, whole packets, or whole packets and a part of one
	for i := r.Intn(4); i > 0; i-- {
		write(piece())
	}
	note("%d bytes published before the start", wpos)
	discard := func(what string) bool {
		if err := func() error {
			if what == "start" {
				return dev.start()
			}
			return dev.discardStale()
		}(); err != nil {
			c.Violate("c18:ring-device-start", "%s failed: %v; history %v", what, err, hist)
			return false
		}
		rpos += (wpos - rpos) / psize * psize // whole packets go, a packet that is still being published stays
		note("%s: model read position %d (packet %d + %d bytes published)", what, rpos, wpos/psize, wpos%psize)
		if (wpos-rpos)%psize != 0 {
			c.Cov("ring_device_discards_with_a_packet_in_flight", 1)
		}
		return true
	}
	if !discard("start") {
		return
	}
	defer dev.stop()
	nops := 30 + r.Intn(120)
	for op := 0; op < nops; op++ {
		switch k := r.Intn(10); {
		case k < 5:
			n := piece()
			before := wpos
			write(n)
			note("publish %d bytes (%d accepted)", n, wpos-before)
		case k < 9:
			got, err := dev.ReadAllPackets()
			want := (wpos - rpos) / psize
			if err != nil {
				c.Violate("c18:ring-device-read", "ReadAllPackets failed: %v; the ring holds %d whole packets from stream position %d (a packet boundary) on, plus %d bytes of the next; history %v",
					err, want, rpos, (wpos-rpos)%psize, hist)
				return
			}
			if len(got) != want {
				c.Violate("c18:ring-device-read", "ReadAllPackets returned %d packets, the ring holds %d whole packets from stream position %d on; history %v", len(got), want, rpos, hist)
				return
			}
			for i, p := range got {
				idx := rpos/psize + i
				if int(p.SequenceNumber()) != 1000+idx {
					c.Violate("c18:ring-device-read", "packet %d of a read has sequence number %d, the next unread packet is number %d; history %v", i, p.SequenceNumber(), 1000+idx, hist)
					return
				}
				d, ok := p.Data.([]int16)
				if !ok || len(d) != nchan*frames {
					c.Violate("c18:ring-device-read", "packet %d (sequence number %d) has payload %T of length %d, published were %d int16; history %v", i, p.SequenceNumber(), p.Data, vLenAny(p.Data), nchan*frames, hist)
					return
				}
				for j, v := range d {
					if v != int16(vAbVal(j%nchan, idx*frames+j/nchan)) {
						c.Violate("c18:ring-device-read", "packet with sequence number %d: sample %d is %d, published was %d; history %v", p.SequenceNumber(), j, v, int16(vAbVal(j%nchan, idx*frames+j/nchan)), hist)
						return
					}
				}
			}
			rpos += want * psize
			note("read: %d packets", want)
			c.Cov("ring_device_packets_read", want)
		default:
			// the source discards again when the run starts (StartRun does, after the sampling phase)
			if !discard("discardStale") {
				return
			}
		}
	}
	c.Cov("ring_device_histories", 1)
	c.Nontrivial()
}

func vLenAny(d any) int {
	switch v := d.(type) {
	case []int16:
		return len(v)
	case []int32:
		return len(v)
	case []int64:
		return len(v)
	}
	return 0
}
