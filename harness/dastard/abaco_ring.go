package PKGNAME

// The Abaco source's shared-memory device (AbacoRing) over a real shared-memory ring: the consumer side of C18 as abaco.go uses
// it (discard to the packet stride when the source starts, size-constrained reads of whole packets). The writer is the harness,
// playing the card's driver: it publishes the packet stream in pieces that do not respect packet boundaries.

import (
	"fmt"
	"net"
	"os"
	"time"

	"github.com/usnistgov/dastard/packets"
	"github.com/usnistgov/dastard/ringbuffer"
)

func vRunAbacoRingDevice(c *vCase) {
	r := c.R
	const psize = 8192
	name := fmt.Sprintf("verif_ar_%d_%d", os.Getpid(), c.Idx)
	w, err := ringbuffer.NewRingBuffer(name+"_buffer", name+"_description")
	if err != nil {
		c.Inconclusive("setup", "NewRingBuffer: %v", err)
		return
	}
	size := vPick(r, 1<<18, 1<<19, (1<<18)+3*psize, (1<<18)+1000)
	backlog := c.Idx%32 == 11
	if backlog {
		size = 1400 * psize // a reader held up for a while finds more than a thousand packets waiting
	}
	if err := w.Create(size); err != nil {
		c.Inconclusive("setup", "Create(%d): %v", size, err)
		return
	}
	defer w.Unlink()
	defer w.Close()
	nchan := vPick(r, 1, 2, 4, 8)
	frames := vPick(r, 8, 50, 200)
	c.Describe("ring device: ring of %d bytes, packets of %d channels x %d frames padded to %d bytes, seed=%d idx=%d", size, nchan, frames, psize, c.Seed, c.Idx)
	packet := func(k int) []byte {
		p := packets.NewPacket(10, 3, uint32(1000+k-1), 0) // (NewData advances the sequence number)
		p.SetTimestamp(&packets.PacketTimestamp{T: uint64(1000000 + k*frames*100), Rate: 1e8})
		d := make([]int16, nchan*frames)
		for i := range d {
			d[i] = int16(vAbVal(i%nchan, k*frames+i/nchan))
		}
		p.NewData(d, []int16{int16(nchan)})
		b := p.Bytes()
		return append(b, make([]byte, psize-len(b)%psize)...)[:psize]
	}
	var wpos, rpos int // bytes published by the writer / consumed by the device (model)
	var hist []string
	note := func(f string, a ...any) {
		hist = append(hist, fmt.Sprintf(f, a...))
		if len(hist) > 30 {
			hist = hist[len(hist)-30:]
		}
	}
	var cur []byte // the packet being published
	write := func(n int) {
		for n > 0 {
			if len(cur) == 0 {
				cur = packet(wpos / psize)
			}
			k := n
			if k > len(cur) {
				k = len(cur)
			}
			if w.BytesWriteable() < k {
				return // the ring is full: the driver waits
			}
			m, err := w.Write(cur[:k])
			if err != nil || m != k {
				return
			}
			cur = cur[k:]
			wpos += k
			n -= k
		}
	}
	piece := func() int {
		return vPick(r, psize, 2*psize, 3000, 5192, 100, 1, psize-1, psize+1, 4*psize+77, r.Intn(3*psize))
	}
	dev := &AbacoRing{ringnum: -1}
	if dev.ring, err = ringbuffer.NewRingBuffer(name+"_buffer", name+"_description"); err != nil {
		c.Inconclusive("setup", "NewRingBuffer: %v", err)
		return
	}
	// what is in the ring before the source starts: nothing, whole packets, or whole packets and a part of one
	for i := r.Intn(4); i > 0; i-- {
		write(piece())
	}
	note("%d bytes published before the start", wpos)
	discard := func(what string) bool {
		if err := func() error {
			if what == "start" {
				return dev.start()
			}
			return dev.discardStale()
		}(); err != nil {
			c.Violate("c18:ring-device-start", "%s failed: %v; history %v", what, err, hist)
			return false
		}
		rpos += (wpos - rpos) / psize * psize // whole packets go, a packet that is still being published stays
		note("%s: model read position %d (packet %d + %d bytes published)", what, rpos, wpos/psize, wpos%psize)
		if (wpos-rpos)%psize != 0 {
			c.Cov("ring_device_discards_with_a_packet_in_flight", 1)
		}
		return true
	}
	if !discard("start") {
		return
	}
	defer dev.stop()
	nops := 30 + r.Intn(120)
	if backlog {
		nops = 12
	}
	for op := 0; op < nops; op++ {
		switch k := r.Intn(10); {
		case k < 5:
			n := piece()
			if backlog && op%4 == 0 {
				n = (1030 + r.Intn(300)) * psize
				c.Cov("ring_device_backlogs_of_over_1024_packets", 1)
			}
			before := wpos
			write(n)
			note("publish %d bytes (%d accepted)", n, wpos-before)
		case k < 9:
			got, err := dev.ReadAllPackets()
			want := (wpos - rpos) / psize
			if err != nil {
				c.Violate("c18:ring-device-read", "ReadAllPackets failed: %v; the ring holds %d whole packets from stream position %d (a packet boundary) on, plus %d bytes of the next; history %v",
					err, want, rpos, (wpos-rpos)%psize, hist)
				return
			}
			if len(got) != want {
				c.Violate("c18:ring-device-read", "ReadAllPackets returned %d packets, the ring holds %d whole packets from stream position %d on; history %v", len(got), want, rpos, hist)
				return
			}
			for i, p := range got {
				idx := rpos/psize + i
				if int(p.SequenceNumber()) != 1000+idx {
					c.Violate("c18:ring-device-read", "packet %d of a read has sequence number %d, the next unread packet is number %d; history %v", i, p.SequenceNumber(), 1000+idx, hist)
					return
				}
				d, ok := p.Data.([]int16)
				if !ok || len(d) != nchan*frames {
					c.Violate("c18:ring-device-read", "packet %d (sequence number %d) has payload %T of length %d, published were %d int16; history %v", i, p.SequenceNumber(), p.Data, vLenAny(p.Data), nchan*frames, hist)
					return
				}
				for j, v := range d {
					if v != int16(vAbVal(j%nchan, idx*frames+j/nchan)) {
						c.Violate("c18:ring-device-read", "packet with sequence number %d: sample %d is %d, published was %d; history %v", p.SequenceNumber(), j, v, int16(vAbVal(j%nchan, idx*frames+j/nchan)), hist)
						return
					}
				}
			}
			rpos += want * psize
			note("read: %d packets", want)
			c.Cov("ring_device_packets_read", want)
		default:
			// the source discards again when the run starts (StartRun does, after the sampling phase)
			if !discard("discardStale") {
				return
			}
		}
	}
	c.Cov("ring_device_histories", 1)
	c.Nontrivial()
}

func vLenAny(d any) int {
	switch v := d.(type) {
	case []int16:
		return len(v)
	case []int32:
		return len(v)
	case []int64:
		return len(v)
	}
	return 0
}

// vRunAbacoUDPDevice: the Abaco source's UDP device over a real loopback socket. The harness sends datagrams: whole packets of
// different lengths, packets cut short, and bytes that are no packet at all. What the device hands on must be exactly the whole
// packets, each as it was sent (a subsequence in order: the network may lose datagrams, it does not invent or alter them), and a
// batch that has been handed on is not changed by later traffic.
func vRunAbacoUDPDevice(c *vCase) {
	r := c.R
	port := vFreeUDPPort()
	dev, err := NewAbacoUDPReceiver(fmt.Sprintf("127.0.0.1:%d", port))
	if err != nil {
		c.Inconclusive("setup", "NewAbacoUDPReceiver: %v", err)
		return
	}
	if err := dev.start(); err != nil {
		c.Inconclusive("setup", "start: %v", err)
		return
	}
	defer dev.stop()
	conn, err := net.Dial("udp", fmt.Sprintf("127.0.0.1:%d", port))
	if err != nil {
		c.Inconclusive("setup", "dial: %v", err)
		return
	}
	defer conn.Close()
	nchan := vPick(r, 1, 2, 4, 8)
	c.Describe("udp device: %d channels, seed=%d idx=%d", nchan, c.Seed, c.Idx)
	type sentPkt struct {
		seq    uint32
		frames int
		bytes  int
	}
	var sent []sentPkt
	var hist []string
	note := func(f string, a ...any) {
		hist = append(hist, fmt.Sprintf(f, a...))
		if len(hist) > 40 {
			hist = hist[len(hist)-40:]
		}
	}
	mk := func(k, frames int) []byte {
		p := packets.NewPacket(10, 5, uint32(2000+k-1), 0) // (NewData advances the sequence number)
		p.SetTimestamp(&packets.PacketTimestamp{T: uint64(5000000 + k*1000), Rate: 1e8})
		d := make([]int16, nchan*frames)
		for i := range d {
			d[i] = int16(vAbVal(i%nchan, k*1000+i/nchan))
		}
		p.NewData(d, []int16{int16(nchan)})
		return p.Bytes()
	}
	next := 0 // index into sent of the first packet not yet seen
	var heldBatch []*packets.Packet
	var heldSeq []uint32
	check := func() bool {
		var got []*packets.Packet
		var err error
		if !vWatched(c, "ReadAllPackets (UDP device)", 15*time.Second, func() { got, err = dev.ReadAllPackets() }) {
			return false // the device no longer answers (wait-state analysis has reported it)
		}
		if err != nil {
			c.Violate("c15:udp-device", "ReadAllPackets: %v; history %v", err, hist)
			return false
		}
		// the batch handed on before must not have been touched by what arrived since
		for i, p := range heldBatch {
			if p.SequenceNumber() != heldSeq[i] {
				c.Violate("c15:udp-device-batch-changed", "packet %d of a batch handed on earlier had sequence number %d and now has %d; history %v", i, heldSeq[i], p.SequenceNumber(), hist)
				return false
			}
		}
		for _, p := range got {
			j := next
			for j < len(sent) && sent[j].seq != p.SequenceNumber() {
				j++
			}
			if j == len(sent) {
				c.Violate("c15:udp-device", "the device handed on a packet with sequence number %d, %d frames, %d bytes: no whole packet that was sent and not yet seen has that number (next unseen %v); history %v",
					p.SequenceNumber(), p.Frames(), p.Length(), sent[vMinInt(next, len(sent)):vMinInt(next+3, len(sent))], hist)
				return false
			}
			if j > next {
				c.Cov("udp_datagrams_lost_by_the_network", j-next)
			}
			k := int(sent[j].seq) - 2000
			d, ok := p.Data.([]int16)
			if p.Length() != sent[j].bytes || p.Frames() != sent[j].frames || !ok || len(d) != nchan*sent[j].frames {
				c.Violate("c15:udp-device", "packet with sequence number %d was sent as %d bytes with %d frames, the device hands on %d bytes, %d frames, payload %T x%d; history %v",
					p.SequenceNumber(), sent[j].bytes, sent[j].frames, p.Length(), p.Frames(), p.Data, vLenAny(p.Data), hist)
				return false
			}
			for i, v := range d {
				if v != int16(vAbVal(i%nchan, k*1000+i/nchan)) {
					c.Violate("c15:udp-device", "packet with sequence number %d: sample %d is %d, sent was %d; history %v", p.SequenceNumber(), i, v, int16(vAbVal(i%nchan, k*1000+i/nchan)), hist)
					return false
				}
			}
			next = j + 1
			c.Cov("udp_device_packets_handed_on", 1)
		}
		heldBatch = got
		heldSeq = heldSeq[:0]
		for _, p := range got {
			heldSeq = append(heldSeq, p.SequenceNumber())
		}
		note("read: %d packets", len(got))
		return true
	}
	n := 30 + r.Intn(60)
	k := 0
	for i := 0; i < n; i++ {
		frames := vPick(r, 8, 50, 200, 400/nchan+1)
		switch kind := r.Intn(10); {
		case kind < 6:
			b := mk(k, frames)
			conn.Write(b)
			sent = append(sent, sentPkt{uint32(2000 + k), frames, len(b)})
			note("packet %d: %d bytes", 2000+k, len(b))
			k++
		case kind < 8:
			// cut short: less than its own header says (after a longer datagram in most histories)
			b := mk(k, frames)
			cut := vPick(r, len(b)/2, len(b)-1, len(b)-2*nchan, 20, 16, 8, 1+r.Intn(len(b)-1))
			if cut < 1 || cut >= len(b) {
				cut = len(b) / 2
			}
			conn.Write(b[:cut])
			note("packet %d cut to %d of %d bytes", 2000+k, cut, len(b))
			c.Cov("udp_datagrams_cut_short", 1)
			k++
		case kind == 8:
			g := make([]byte, vPick(r, 1, 15, 16, 100, 1000))
			r.Read(g)
			conn.Write(g)
			note("%d bytes of noise", len(g))
			c.Cov("udp_datagrams_of_noise", 1)
		default:
			conn.Write(nil) // an empty datagram
			note("empty datagram")
		}
		if vChance(r, 0.3) {
			time.Sleep(time.Duration(1+r.Intn(3)) * time.Millisecond)
			if !check() {
				return
			}
		}
	}
	for i := 0; i < 200 && next < len(sent); i++ {
		time.Sleep(5 * time.Millisecond)
		if !check() {
			return
		}
	}
	if next < len(sent) {
		c.Cov("udp_device_histories_with_datagrams_outstanding", 1)
	}
	c.Cov("udp_device_histories", 1)
	c.Nontrivial()
}

func vMinInt(a, b int) int {
	if a < b {
		return a
	}
	return b
}
