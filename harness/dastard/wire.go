package PKGNAME

// C14: published record and summary messages follow doc/BINARY_FORMATS.md.
// (a) the message builders directly; (b) end to end through the real PUB sockets
// (configurePubRecordsSocket / configurePubSummariesSocket) and ZMQ SUB sockets.

import (
	"encoding/binary"
	"fmt"
	"gonum.org/v1/gonum/mat"
	"math"
	"math/rand"
	"net"
	"os"
	"path/filepath"
	"sync"
	"time"

	"github.com/pebbe/zmq4"
)

func vGenWireRecord(r *rand.Rand, big bool) *DataRecord {
	rec := new(DataRecord)
	rec.channelIndex = vPick(r, 0, 1, 255, 256, 65535, r.Intn(65536))
	n := vPick(r, 0, 1, 2, 7, 100, 1000)
	if big {
		n = vPick(r, 20000, 65535, 65536, 65537, 100000, 200000) // beyond 16-bit counts
	}
	rec.data = make([]RawType, n)
	for i := range rec.data {
		rec.data[i] = RawType(r.Intn(65536))
	}
	rec.presamples = 0
	if n > 0 {
		rec.presamples = r.Intn(n + 1)
	}
	rec.signed = vChance(r, 0.5)
	rec.sampPeriod = math.Float32frombits(r.Uint32())
	rec.voltsPerArb = vPick(r, float32(1.0/65535), float32(math.Inf(1)), float32(math.NaN()), math.Float32frombits(r.Uint32()))
	rec.trigFrame = FrameIndex(vPick(r, int64(0), int64(-1), int64(math.MaxInt64), int64(math.MinInt64), r.Int63()))
	ns := vPick(r, int64(0), int64(-1), int64(1700000000)*1e9, int64(math.MaxInt64), r.Int63())
	// (the instant is what is published; the time value may carry any location, as a machine not running on UTC gives it)
	rec.trigTime = time.Unix(0, ns).In(vPick(r, time.UTC, time.UTC, time.FixedZone("verif-west", -7*3600), time.FixedZone("verif-east", 5*3600+1800), time.Local))
	sp := func() float64 {
		return vPick(r, 0.0, math.NaN(), math.Inf(1), math.Inf(-1), r.NormFloat64()*1000, 3.4e39, -1e-50)
	}
	rec.pretrigMean, rec.peakValue, rec.pulseRMS, rec.pulseAverage, rec.residualStdDev = sp(), sp(), sp(), sp(), sp()
	nc := vPick(r, 0, 0, 1, 3, 8, 64)
	if nc > 0 {
		rec.modelCoefs = make([]float64, nc)
		for i := range rec.modelCoefs {
			rec.modelCoefs[i] = vPick(r, r.NormFloat64(), math.NaN(), math.Inf(1), 1e300, math.Float64frombits(r.Uint64()))
		}
	}
	return rec
}

func vF32same(a, b float32) bool { return math.Float32bits(a) == math.Float32bits(b) }

// vCheckRecordMsg decodes a two-part record message per the documented layout.
func vCheckRecordMsg(c *vCase, msg [][]byte, rec *DataRecord) bool {
	if len(msg) != 2 {
		c.Violate("c14:parts", "record message has %d parts, want 2", len(msg))
		return false
	}
	h := msg[0]
	if len(h) != 36 {
		c.Violate("c14:record-header-length", "record header is %d bytes, documented 36", len(h))
		return false
	}
	le := binary.LittleEndian
	bad := func(field string, got, want any) bool {
		c.Violate("c14:record-"+field, "record header %s: decoded %v, record has %v", field, got, want)
		return false
	}
	if le.Uint16(h[0:]) != uint16(rec.channelIndex) {
		return bad("channel", le.Uint16(h[0:]), rec.channelIndex)
	}
	if h[2] != 0 {
		return bad("version", h[2], 0)
	}
	wantType := byte(3)
	if rec.signed {
		wantType = 2
	}
	if h[3] != wantType {
		return bad("datatype", h[3], wantType)
	}
	if le.Uint32(h[4:]) != uint32(rec.presamples) {
		return bad("presamples", le.Uint32(h[4:]), rec.presamples)
	}
	if le.Uint32(h[8:]) != uint32(len(rec.data)) {
		return bad("nsamples", le.Uint32(h[8:]), len(rec.data))
	}
	if !vF32same(math.Float32frombits(le.Uint32(h[12:])), rec.sampPeriod) {
		return bad("sampPeriod", math.Float32frombits(le.Uint32(h[12:])), rec.sampPeriod)
	}
	if !vF32same(math.Float32frombits(le.Uint32(h[16:])), rec.voltsPerArb) {
		return bad("voltsPerArb", math.Float32frombits(le.Uint32(h[16:])), rec.voltsPerArb)
	}
	if int64(le.Uint64(h[20:])) != rec.trigTime.UnixNano() {
		return bad("trigTime", int64(le.Uint64(h[20:])), rec.trigTime.UnixNano())
	}
	if int64(le.Uint64(h[28:])) != int64(rec.trigFrame) {
		return bad("trigFrame", int64(le.Uint64(h[28:])), rec.trigFrame)
	}
	p := msg[1]
	if len(p) != 2*len(rec.data) {
		c.Violate("c14:record-payload-length", "payload %d bytes for %d samples", len(p), len(rec.data))
		return false
	}
	for i, v := range rec.data {
		if le.Uint16(p[2*i:]) != uint16(v) {
			c.Violate("c14:record-payload", "payload sample %d decodes to %d, record has %d", i, le.Uint16(p[2*i:]), v)
			return false
		}
	}
	c.Cov("record_msgs", 1)
	return true
}

func vCheckSummaryMsg(c *vCase, msg [][]byte, rec *DataRecord) bool {
	if len(msg) != 2 {
		c.Violate("c14:parts", "summary message has %d parts, want 2", len(msg))
		return false
	}
	h := msg[0]
	if len(h) != 48 {
		c.Violate("c14:summary-header-length", "summary header is %d bytes, the documented table ends at byte 48", len(h))
		return false
	}
	le := binary.LittleEndian
	bad := func(field string, got, want any) bool {
		c.Violate("c14:summary-"+field, "summary header %s: decoded %v, record has %v", field, got, want)
		return false
	}
	if le.Uint16(h[0:]) != uint16(rec.channelIndex) {
		return bad("channel", le.Uint16(h[0:]), rec.channelIndex)
	}
	if le.Uint16(h[2:]) != 0 {
		return bad("version", le.Uint16(h[2:]), 0)
	}
	if le.Uint32(h[4:]) != uint32(rec.presamples) {
		return bad("presamples", le.Uint32(h[4:]), rec.presamples)
	}
	if le.Uint32(h[8:]) != uint32(len(rec.data)) {
		return bad("nsamples", le.Uint32(h[8:]), len(rec.data))
	}
	f := func(off int) float32 { return math.Float32frombits(le.Uint32(h[off:])) }
	for _, x := range []struct {
		name string
		off  int
		v    float64
	}{{"pretrigMean", 12, rec.pretrigMean}, {"peakValue", 16, rec.peakValue}, {"pulseRMS", 20, rec.pulseRMS},
		{"pulseAverage", 24, rec.pulseAverage}, {"residualStdDev", 28, rec.residualStdDev}} {
		want := float32(x.v)
		got := f(x.off)
		if !(vF32same(got, want) || (got != got && want != want)) {
			return bad(x.name, got, want)
		}
	}
	if int64(le.Uint64(h[32:])) != rec.trigTime.UnixNano() {
		return bad("trigTime", int64(le.Uint64(h[32:])), rec.trigTime.UnixNano())
	}
	if int64(le.Uint64(h[40:])) != int64(rec.trigFrame) {
		return bad("trigFrame", int64(le.Uint64(h[40:])), rec.trigFrame)
	}
	p := msg[1]
	if len(p) != 8*len(rec.modelCoefs) {
		c.Violate("c14:summary-payload-length", "payload %d bytes for %d coefficients", len(p), len(rec.modelCoefs))
		return false
	}
	for i, v := range rec.modelCoefs {
		if le.Uint64(p[8*i:]) != math.Float64bits(v) {
			c.Violate("c14:summary-payload", "coefficient %d decodes to bits %x, record has %x", i, le.Uint64(p[8*i:]), math.Float64bits(v))
			return false
		}
	}
	c.Cov("summary_msgs", 1)
	return true
}

// ---- end-to-end sockets, set up once per process

type vWire struct {
	ok               bool
	err              error
	subRecAll        *zmq4.Socket
	subSumAll        *zmq4.Socket
	subRecChan       *zmq4.Socket
	chanFilter       int
	recvTimeout      time.Duration
	sentinelChannels int
}

var vW vWire
var vWireOnce sync.Once

func vPortFree(p int) bool {
	l, err := net.Listen("tcp", fmt.Sprintf(":%d", p))
	if err != nil {
		return false
	}
	l.Close()
	return true
}

func vPickPortBase(n int) int {
	base := 20000 + (os.Getpid()*7)%12000 // below the kernel's ephemeral range (32768-): nobody gets these ports without asking for them
	for try := 0; try < 500; try++ {
		ok := true
		for i := 0; i < n; i++ {
			if !vPortFree(base + i) {
				ok = false
				break
			}
		}
		if ok {
			return base
		}
		base = 20000 + (base-20000+11)%12000
	}
	return base
}

func vWireSetup() {
	base := vPickPortBase(6)
	setPortnumbers(base)
	if err := configurePubRecordsSocket(); err != nil {
		vW.err = err
		return
	}
	if err := configurePubSummariesSocket(); err != nil {
		vW.err = err
		return
	}
	mk := func(port int, filter string) *zmq4.Socket {
		s, err := zmq4.NewSocket(zmq4.SUB)
		if err != nil {
			vW.err = err
			return nil
		}
		s.SetRcvhwm(0)
		s.SetRcvtimeo(20 * time.Second)
		s.SetSubscribe(filter)
		if err := s.Connect(fmt.Sprintf("tcp://127.0.0.1:%d", port)); err != nil {
			vW.err = err
			return nil
		}
		return s
	}
	vW.chanFilter = 513 // bytes 0x01 0x02
	vW.subRecAll = mk(Ports.Trigs, "")
	vW.subSumAll = mk(Ports.Summaries, "")
	vW.subRecChan = mk(Ports.Trigs, string([]byte{0x01, 0x02}))
	if vW.err != nil {
		return
	}
	// slow-joiner: resend a sentinel on the filtered channel until every subscriber has seen one
	sent := &DataRecord{channelIndex: vW.chanFilter, data: []RawType{0xdead}}
	seen := [3]bool{}
	deadline := time.Now().Add(30 * time.Second)
	for !(seen[0] && seen[1] && seen[2]) && time.Now().Before(deadline) {
		PubRecordsChan <- []*DataRecord{sent}
		PubSummariesChan <- []*DataRecord{sent}
		time.Sleep(20 * time.Millisecond)
		for i, s := range []*zmq4.Socket{vW.subRecAll, vW.subSumAll, vW.subRecChan} {
			for {
				if _, err := s.RecvMessageBytes(zmq4.DONTWAIT); err != nil {
					break
				}
				seen[i] = true
			}
		}
	}
	if !(seen[0] && seen[1] && seen[2]) {
		vW.err = fmt.Errorf("subscribers never received the sentinel: %v", seen)
		return
	}
	// drain what is still in flight
	time.Sleep(300 * time.Millisecond)
	for _, s := range []*zmq4.Socket{vW.subRecAll, vW.subSumAll, vW.subRecChan} {
		for {
			if _, err := s.RecvMessageBytes(zmq4.DONTWAIT); err != nil {
				break
			}
		}
	}
	vW.ok = true
}

// vWirePublisher returns a DataPublisher with both ZMQ ports enabled (the sockets exist already).
func vWirePublisher() *DataPublisher {
	dp := &DataPublisher{}
	dp.SetPubRecords()
	dp.SetPubSummaries()
	return dp
}

func vRunC14(c *vCase) {
	r := c.R
	vWireOnce.Do(vWireSetup)
	// (a) builders directly
	nA := 20
	var shapes []string
	var prevRec *DataRecord
	var prevMR, prevMS [][]byte
	for i := 0; i < nA; i++ {
		rec := vGenWireRecord(r, i == 0 && (c.Tier == "thorough" || c.Idx%3 == 0))
		shapes = append(shapes, fmt.Sprintf("ch%d/n%d/f%d/c%d", rec.channelIndex, len(rec.data), rec.trigFrame, len(rec.modelCoefs)))
		mr := messageRecords(rec)
		if !vCheckRecordMsg(c, mr, rec) {
			return
		}
		ms := messageSummaries(rec)
		if !vCheckSummaryMsg(c, ms, rec) {
			return
		}
		// a message stays what it was while later messages are built (the publisher hands messages to the socket one
		// after the other): the frames built for this record are checked again after those of the next record exist
		if prevRec != nil {
			if !vCheckRecordMsg(c, prevMR, prevRec) || !vCheckSummaryMsg(c, prevMS, prevRec) {
				c.Note("the message had decoded correctly before the next record's messages were built: its frames share memory with later ones")
				return
			}
			c.Cov("messages_rechecked_after_later_ones", 2)
		}
		prevRec, prevMR, prevMS = rec, mr, ms
	}
	c.Describe("C14 direct x%d %v + wire x12", nA, shapes)
	if !vW.ok {
		c.Inconclusive("wire-setup", "could not set up PUB/SUB sockets: %v", vW.err)
		return
	}
	// (b) through the real sockets, lock step
	nB := 12
	wantChan := 0
	var chanRecs []*DataRecord
	for i := 0; i < nB; i++ {
		rec := vGenWireRecord(r, false)
		if i%3 == 0 {
			rec.channelIndex = vW.chanFilter
		}
		if i%3 == 1 { // same first byte, different second byte: must not reach the filtered subscriber
			rec.channelIndex = vPick(r, 0x0101, 0x0301, 0x0200, 0x0102)
		}
		// through the publisher object the processing code uses (both ports enabled, no files)
		if err := vWirePublisher().PublishData([]*DataRecord{rec}); err != nil {
			c.Violate("c14:publish-error", "PublishData returned %v", err)
			return
		}
		m, err := vW.subRecAll.RecvMessageBytes(0)
		if err != nil {
			c.Inconclusive("wire-recv", "record subscriber received nothing: %v", err)
			return
		}
		if !vCheckRecordMsg(c, m, rec) {
			return
		}
		m2, err := vW.subSumAll.RecvMessageBytes(0)
		if err != nil {
			c.Inconclusive("wire-recv", "summary subscriber received nothing: %v", err)
			return
		}
		if !vCheckSummaryMsg(c, m2, rec) {
			return
		}
		if rec.channelIndex == vW.chanFilter {
			wantChan++
			chanRecs = append(chanRecs, rec)
		}
		c.Cov("wire_roundtrips", 1)
	}
	// (c) a batch of several records handed over at once (one channel triggering more than once in a block):
	// every record is its own two-part message, in order; a record of another channel in the batch must not
	// reach the filtered subscriber
	batch := []*DataRecord{vGenWireRecord(r, false), vGenWireRecord(r, false), vGenWireRecord(r, false)}
	batch[0].channelIndex = vW.chanFilter
	batch[1].channelIndex = vPick(r, 0x0101, 0x0301, 7)
	batch[2].channelIndex = vW.chanFilter
	bpub := vWirePublisher()
	var expect []*DataRecord // what each message must say: the records as they were handed over
	if c.Idx%4 == 2 {
		// the same batch also goes into an OFF file (a model with as many components as the records have coefficients): what is
		// published is what was handed over, whatever the file writer does with it
		nc := 1 + r.Intn(6)
		for _, rec := range batch {
			rec.modelCoefs = make([]float64, nc)
			for i := range rec.modelCoefs {
				rec.modelCoefs[i] = r.NormFloat64() * 1000
			}
			rec.data = rec.data[:vMinInt(len(rec.data), 7)]
			rec.presamples = vMinInt(rec.presamples, len(rec.data))
		}
		n := 8
		pm, bm := mat.NewDense(nc, n, make([]float64, nc*n)), mat.NewDense(n, nc, make([]float64, n*nc))
		bpub.SetOFF(0, 2, n, 1, 1e-5, time.Unix(vT0Unix, 0), 1, 1, 1, 1, 0, 0, 0, filepath.Join(c.Dir, "c14.off"), "Verif", "chan0", 0, pm, bm, "verif", Pixel{})
		defer bpub.RemoveOFF()
		c.Cov("batches_also_written_to_an_off_file", 1)
	}
	for _, rec := range batch {
		cp := *rec
		cp.modelCoefs = append([]float64(nil), rec.modelCoefs...)
		cp.data = append([]RawType(nil), rec.data...)
		expect = append(expect, &cp)
	}
	if err := bpub.PublishData(batch); err != nil {
		c.Violate("c14:publish-error", "PublishData returned %v", err)
		return
	}
	for bi, rec := range expect {
		m, err := vW.subRecAll.RecvMessageBytes(0)
		if err != nil {
			c.Violate("c14:batch-missing", "a batch of %d records was published; the subscriber did not receive message %d: %v", len(batch), bi, err)
			return
		}
		if !vCheckRecordMsg(c, m, rec) {
			return
		}
		m2, err := vW.subSumAll.RecvMessageBytes(0)
		if err != nil {
			c.Violate("c14:batch-missing", "a batch of %d summaries was published; the subscriber did not receive message %d: %v", len(batch), bi, err)
			return
		}
		if !vCheckSummaryMsg(c, m2, rec) {
			return
		}
		if rec.channelIndex == vW.chanFilter {
			wantChan++
			chanRecs = append(chanRecs, rec)
		}
	}
	c.Cov("wire_batches", 1)
	// the per-channel subscriber must have received all and only its channel's records, in order
	for k := 0; k < wantChan; k++ {
		m, err := vW.subRecChan.RecvMessageBytes(0)
		if err != nil {
			c.Violate("c14:subscription-missed", "subscriber to the 2-byte prefix of channel %d did not receive record %d of %d", vW.chanFilter, k, wantChan)
			return
		}
		if !vCheckRecordMsg(c, m, chanRecs[k]) {
			return
		}
		c.Cov("filtered_received", 1)
	}
	time.Sleep(5 * time.Millisecond)
	if m, err := vW.subRecChan.RecvMessageBytes(zmq4.DONTWAIT); err == nil {
		c.Violate("c14:subscription-extra", "subscriber to channel %d's prefix received a message with header %v", vW.chanFilter, m[0][:4])
		return
	}
	if c.Idx%8 == 5 && !vPrefixOnlyPass(c) {
		return
	}
	c.Nontrivial()
}

// vPrefixOnlyPass: a publisher of its own (the code's startSocket on a private port) whose only subscribers filter on channel
// prefixes; nobody subscribes to everything. While subscriber A listens on the documented 2-byte prefix of channel X, another
// client subscribes with a longer prefix that begins with the same two bytes and goes away again. A must go on receiving every
// record of channel X and only those, subscriber C those of channel Y.
var vPrefixPub struct {
	once sync.Once
	ch   chan []*DataRecord
	port int
	err  error
}

func vPrefixOnlyPass(c *vCase) bool {
	r := c.R
	e := &vPrefixPub
	e.once.Do(func() {
		e.port = vPickPortBase(1)
		e.ch, e.err = startSocket(e.port, messageRecords)
	})
	if e.err != nil {
		c.Inconclusive("wire-setup", "private publisher: %v", e.err)
		return false
	}
	x, y := 0x0403+r.Intn(200), 0x0907+r.Intn(200)
	pfx := func(ch int, extra ...byte) string { return string(append([]byte{byte(ch), byte(ch >> 8)}, extra...)) }
	sub := func(filter string) *zmq4.Socket {
		s, err := zmq4.NewSocket(zmq4.SUB)
		if err != nil {
			return nil
		}
		s.SetRcvhwm(0)
		s.SetRcvtimeo(10 * time.Second)
		s.SetLinger(0)
		s.SetSubscribe(filter)
		if s.Connect(fmt.Sprintf("tcp://127.0.0.1:%d", e.port)) != nil {
			s.Close()
			return nil
		}
		return s
	}
	a, cc := sub(pfx(x)), sub(pfx(y))
	if a == nil || cc == nil {
		c.Inconclusive("wire-setup", "private subscribers could not be made")
		return false
	}
	defer a.Close()
	defer cc.Close()
	// slow joiner: sentinels on both channels until both subscribers have seen one
	seenA, seenC := false, false
	for i := 0; i < 500 && !(seenA && seenC); i++ {
		e.ch <- []*DataRecord{{channelIndex: x, data: []RawType{0xdead}}, {channelIndex: y, data: []RawType{0xdead}}}
		time.Sleep(10 * time.Millisecond)
		for {
			if _, err := a.RecvMessageBytes(zmq4.DONTWAIT); err != nil {
				break
			}
			seenA = true
		}
		for {
			if _, err := cc.RecvMessageBytes(zmq4.DONTWAIT); err != nil {
				break
			}
			seenC = true
		}
	}
	if !(seenA && seenC) {
		c.Inconclusive("wire-setup", "private subscribers never received the sentinel")
		return false
	}
	// another client with a longer prefix for channel X comes and goes
	b := sub(pfx(x, byte(r.Intn(256))))
	if b == nil {
		c.Inconclusive("wire-setup", "third private subscriber could not be made")
		return false
	}
	time.Sleep(80 * time.Millisecond)
	e.ch <- []*DataRecord{{channelIndex: x, data: []RawType{0xdead}}} // (the publisher looks at its subscriptions when it has something to send)
	time.Sleep(40 * time.Millisecond)
	b.Close()
	time.Sleep(120 * time.Millisecond)
	e.ch <- []*DataRecord{{channelIndex: y, data: []RawType{0xdead}}}
	time.Sleep(60 * time.Millisecond)
	for _, s := range []*zmq4.Socket{a, cc} {
		for {
			if _, err := s.RecvMessageBytes(zmq4.DONTWAIT); err != nil {
				break
			}
		}
	}
	var recX, recY []*DataRecord
	for i := 0; i < 6; i++ {
		rec := vGenWireRecord(r, false)
		if len(rec.data) == 1 && rec.data[0] == 0xdead {
			rec.data[0] = 0xdeae // (0xdead alone is the sentinel)
		}
		if i%2 == 0 {
			rec.channelIndex = x
			recX = append(recX, rec)
		} else {
			rec.channelIndex = y
			recY = append(recY, rec)
		}
		e.ch <- []*DataRecord{rec}
	}
	// (a sentinel may still be under way when the records are sent: a two-byte payload 0xdead is never one of the records)
	isSentinel := func(m [][]byte) bool {
		return len(m) == 2 && len(m[1]) == 2 && m[1][0] == 0xad && m[1][1] == 0xde
	}
	recvRecord := func(s *zmq4.Socket) ([][]byte, error) {
		for {
			m, err := s.RecvMessageBytes(0)
			if err != nil || !isSentinel(m) {
				return m, err
			}
		}
	}
	for k, rec := range recX {
		m, err := recvRecord(a)
		if err != nil {
			c.Violate("c14:subscription-missed", "the subscriber to the 2-byte prefix of channel %d did not receive record %d of %d after another client with a longer prefix of the same channel had come and gone", x, k+1, len(recX))
			return false
		}
		if !vCheckRecordMsg(c, m, rec) {
			return false
		}
	}
	for k, rec := range recY {
		m, err := recvRecord(cc)
		if err != nil {
			c.Violate("c14:subscription-missed", "the subscriber to the 2-byte prefix of channel %d did not receive record %d of %d", y, k+1, len(recY))
			return false
		}
		if !vCheckRecordMsg(c, m, rec) {
			return false
		}
	}
	time.Sleep(5 * time.Millisecond)
	if m, err := a.RecvMessageBytes(zmq4.DONTWAIT); err == nil && !isSentinel(m) {
		c.Violate("c14:subscription-extra", "the subscriber to channel %d's prefix received a further message with header %v", x, m[0][:4])
		return false
	}
	c.Cov("prefix_only_passes", 1)
	return true
}

func init() {
	vRegister("C14", &vProp{
		Cases: func(tier string) int {
			if tier == "thorough" {
				return 8000
			}
			return 480
		},
		Run: vRunC14,
		Meta: vMeta{
			Level:       "exploration",
			Rule:        "case = 20 generated records through messageRecords/messageSummaries directly plus 12 through the real PUB sockets to ZMQ SUB sockets in lock step (channel 0..65535, 0..200000 samples incl. 65535-65537, signed/unsigned, extreme frames/times, NaN/Inf/denormal floats, 0..64 coefficients); every message is decoded with encoding/binary at the documented offsets and compared bit for bit; a third subscriber filtered on a 2-byte channel prefix must receive all and only that channel's records",
			Assumptions: []string{"summary header is 48 bytes (the document's prose says 36 but its own table ends at byte 48, as the property states)", "libzmq delivers in order on one connection; records are sent in lock step so the PUB high-water mark never drops one"},
			Guards: map[string]map[string]int{
				"quick":    {"record_msgs": 10000, "summary_msgs": 10000, "wire_roundtrips": 4000, "filtered_received": 1000},
				"thorough": {"record_msgs": 200000, "summary_msgs": 200000, "wire_roundtrips": 80000, "filtered_received": 20000},
			},
		},
	})
}
