package PKGNAME

// C08 (edge-multi is block-boundary independent, structurally sane, never crashes) and
// C09 (group triggers deliver exactly the connected secondaries; edits act as a set).

import (
	"fmt"
	"math/rand"
	"sort"
	"strings"
	"time"
)

// ---------------------------------------------------------------- C08

type vEMTRec struct {
	frame    FrameIndex
	pre, n   int
	data     []RawType
	blockIdx int
}

func vEMTStream(r *rand.Rand, n, npre, nsamp int, falling bool, edgeAtFirst int) []RawType {
	out := make([]RawType, n)
	base := 5000 + r.Intn(20000)
	noise := vPick(r, 0, 0, 1, 4)
	for i := range out {
		out[i] = RawType(base + r.Intn(2*noise+1) - noise)
	}
	add := func(i, v int) {
		if i < 0 || i >= n {
			return
		}
		x := int(out[i]) + v
		if x < 0 {
			x = 0
		}
		if x > 65535 {
			x = 65535
		}
		out[i] = RawType(x)
	}
	pulse := func(at int) {
		amp := 300 + r.Intn(5000)
		if falling {
			amp = -amp
		}
		rise := 1 + r.Intn(7)
		decay := 3 + r.Intn(60)
		for j := 0; j < rise; j++ {
			add(at+j, amp*(j+1)/rise)
		}
		v := float64(amp)
		for j := rise; j < rise+8*decay; j++ {
			v *= 1 - 1/float64(decay)
			add(at+j, int(v))
		}
	}
	spacingKind := r.Intn(4)
	at := r.Intn(2 * nsamp)
	for at < n {
		pulse(at)
		switch spacingKind {
		case 0:
			at += 1 + r.Intn(3*nsamp)
		case 1:
			at += 1 + r.Intn(nsamp/2+2)
		case 2:
			at += nsamp + r.Intn(4*nsamp)
		case 3:
			at += vPick(r, 1, 2, 3, npre, nsamp-npre, nsamp, nsamp+1, 2*nsamp) + r.Intn(3)
		}
	}
	if edgeAtFirst >= 0 {
		// a clean ramp whose first big step is exactly on the given sample
		slope := 200 + r.Intn(3000)
		if falling {
			slope = -slope
		}
		for j := 0; j < 6; j++ {
			for k := edgeAtFirst + j; k < n; k++ {
				add(k, slope/(1+0*j))
			}
		}
	}
	return out
}

func vRunEMTStream(c *vCase, truth []RawType, blocks []int, set vTrigSetting, npre, nsamp int, first FrameIndex,
	reconfAt int, set2 vTrigSetting) ([]vEMTRec, bool) {
	f, err := vNewFeed(1, 10*time.Microsecond, npre, nsamp, nil)
	if err != nil {
		c.Inconclusive("setup", "%v", err)
		return nil, false
	}
	defer f.close()
	f.firstFrame = first
	f.truth = [][]RawType{truth}
	st := FullTriggerState{ChannelIndices: []int{0}, TriggerState: set.ts}
	if err := f.ds.ChangeTriggerState(&st); err != nil {
		c.Inconclusive("setup", "ChangeTriggerState rejected a valid edge-multi setting %s: %v", set.desc, err)
		return nil, false
	}
	var out []vEMTRec
	for bi, n := range blocks {
		if reconfAt >= 0 && f.pos == reconfAt {
			st2 := FullTriggerState{ChannelIndices: []int{0}, TriggerState: set2.ts}
			if err := f.ds.ChangeTriggerState(&st2); err != nil {
				c.Inconclusive("setup", "reconfiguration rejected: %v", err)
				return nil, false
			}
		}
		if (bi+len(blocks))%3 == 1 {
			// what the server does after any trigger request for any channel: it collects the trigger state of all channels for
			// its clients. Reading the state changes nothing.
			f.ds.ComputeFullTriggerState()
			f.ds.ComputeGroupTriggerState()
			c.Cov("status_reads_between_blocks", 1)
		}
		recs, err := f.push(n, nil, 0)
		if err != nil {
			c.Violate("c08:process-error", "ProcessSegments error: %v", err)
			return nil, false
		}
		for _, rec := range recs {
			out = append(out, vEMTRec{rec.trigFrame, rec.presamples, len(rec.data), rec.data, bi})
		}
	}
	return out, true
}

func vEMTQualifies(truth []RawType, i int, thr, nmono, maxMono int) bool {
	if i < 1 || i >= len(truth) {
		return false
	}
	rising := thr >= 1
	d := int(truth[i]) - int(truth[i-1])
	if !((rising && d >= thr) || (!rising && d <= thr)) {
		return false
	}
	j := 1
	for {
		if i+j >= len(truth) {
			break
		}
		mono := (rising && truth[i+j] > truth[i+j-1]) || (!rising && truth[i+j] < truth[i+j-1])
		if !mono || j >= maxMono {
			break
		}
		j++
	}
	return j >= nmono
}

func vRunC08(c *vCase) {
	r := c.R
	var npre, nsamp int
	switch r.Intn(5) {
	case 0:
		npre, nsamp = 4, 8
	case 1:
		npre = 4 + r.Intn(8)
		nsamp = npre + 4 + r.Intn(10)
	case 2:
		// at and below the boundary of the validity rule (zero-threshold refinement needs four samples on either side): whatever
		// combination the code accepts here is run like any other; what it refuses is not run
		npre = 3 + r.Intn(10)
		nsamp = npre + 1 + r.Intn(4)
	default:
		npre = 4 + r.Intn(80)
		nsamp = npre + 4 + r.Intn(150)
	}
	var set vTrigSetting
	for {
		s, ok := vGenEMT(r, npre, nsamp)
		if ok {
			set = s
			break
		}
	}
	falling := set.ts.EMTState.threshold < 1
	first := FrameIndex(vPick(r, 0, 5, 100000, 1<<33))
	total := 1500 + r.Intn(5000)
	edgeAt := -1
	if vChance(r, 0.35) {
		edgeAt = npre + vPick(r, 0, 0, 1, 2, -1)
	}
	truth := vEMTStream(r, total, npre, nsamp, falling, edgeAt)
	reconfAt := -1
	set2 := set
	if vChance(r, 0.3) {
		reconfAt = nsamp + r.Intn(total-2*nsamp)
		for {
			s, ok := vGenEMT(r, npre, nsamp)
			if ok {
				set2 = s
				break
			}
		}
		if vChance(r, 0.5) { // an edge right on the first searchable sample after the reconfiguration
			falling2 := set2.ts.EMTState.threshold < 1
			slope := 800 + r.Intn(2000)
			if falling2 {
				slope = -slope
			}
			// the stream kept across the reconfiguration is 2*nsamp+10 samples (or everything, if shorter)
			keep := 2*nsamp + 10
			if keep > reconfAt {
				keep = reconfAt
			}
			at := reconfAt - keep + npre + vPick(r, 0, 0, 1)
			for j := 0; j < 5; j++ {
				for k := at + j; k < at+40 && k < total; k++ {
					x := int(truth[k]) + slope
					if x < 0 {
						x = 0
					}
					if x > 65535 {
						x = 65535
					}
					truth[k] = RawType(x)
				}
			}
			c.Cov("edge_at_first_after_reconf", 1)
		}
	}
	pkind := r.Intn(6)
	var blocksA, blocksB []int
	if reconfAt < 0 {
		blocksA = []int{total}
		blocksB = vGenPartition(r, total, nsamp, pkind)
	} else {
		blocksA = []int{reconfAt, total - reconfAt}
		blocksB = append(vGenPartition(r, reconfAt, nsamp, pkind), vGenPartition(r, total-reconfAt, nsamp, pkind)...)
	}
	c.Describe("C08 npre/nsamp=%d/%d %s first=%d total=%d edgeAt=%d reconfAt=%d set2=%s part=%s(%d)", npre, nsamp, set.desc, first, total, edgeAt, reconfAt, set2.desc, vPartitionName(pkind), len(blocksB))
	c.Distinct("mode", set.ts.EMTState.mode)
	c.Distinct("partition", vPartitionName(pkind))
	if edgeAt >= 0 {
		c.Cov("edge_at_first_cases", 1)
	}
	ra, ok := vRunEMTStream(c, truth, blocksA, set, npre, nsamp, first, reconfAt, set2)
	if !ok {
		return
	}
	rb, ok := vRunEMTStream(c, truth, blocksB, set, npre, nsamp, first, reconfAt, set2)
	if !ok {
		return
	}
	c.Cov("records", len(ra))
	c.Cov("blocks", len(blocksB))
	// metamorphic comparison. With a reconfiguration the records emitted before and after it are
	// compared as two lists (the state is reset at that point in both runs).
	if len(ra) != len(rb) {
		c.Violate("c08:partition-dependent", "%s: one block gives %d records, partition %s gives %d (first difference at %s)", set.desc, len(ra), vPartitionName(pkind), len(rb), vFirstDiff(ra, rb))
		return
	}
	for i := range ra {
		a, b := ra[i], rb[i]
		if a.frame != b.frame || a.pre != b.pre || a.n != b.n || !vEqRaw(a.data, b.data) {
			c.Violate("c08:partition-dependent", "%s: record %d differs: one block {frame %d pre %d len %d}, partition %s {frame %d pre %d len %d}", set.desc, i, a.frame, a.pre, a.n, vPartitionName(pkind), b.frame, b.pre, b.n)
			return
		}
	}
	// structural invariants on the partition run, per configuration segment
	seg := func(recs []vEMTRec, s vTrigSetting) {
		es := s.ts.EMTState
		var prev *vEMTRec
		for k := range recs {
			rec := &recs[k]
			rel := int(rec.frame - first)
			// excerpt
			a, b := rel-rec.pre, rel-rec.pre+rec.n
			if a < 0 || b > total || rec.pre < 0 || rec.pre > rec.n {
				c.Violate("c08:range", "record {frame %d pre %d len %d} outside the delivered stream", rec.frame, rec.pre, rec.n)
				return
			}
			if !vEqRaw(truth[a:b], rec.data) {
				c.Violate("c08:samples", "record {frame %d pre %d len %d} is not an excerpt of the stream", rec.frame, rec.pre, rec.n)
				return
			}
			if es.mode != EMTRecordsVariableLength && (rec.n != nsamp || rec.pre != npre) {
				c.Violate("c08:length", "fixed-length mode %d produced record pre/len %d/%d, configured %d/%d", es.mode, rec.pre, rec.n, npre, nsamp)
				return
			}
			if prev != nil {
				if rec.frame <= prev.frame {
					c.Violate("c08:order", "records not in strictly increasing frame order: %d then %d", prev.frame, rec.frame)
					return
				}
				if es.mode == EMTRecordsVariableLength {
					pend := prev.frame - FrameIndex(prev.pre) + FrameIndex(prev.n)
					if pend > rec.frame-FrameIndex(rec.pre) || pend > rec.frame {
						c.Violate("c08:overlap", "variable-length records overlap: previous ends at %d, next starts at %d (trigger %d)", pend, rec.frame-FrameIndex(rec.pre), rec.frame)
						return
					}
					c.Cov("varlen_pairs", 1)
				}
				if es.mode == EMTRecordsFullLengthIsolated {
					pend := prev.frame - FrameIndex(prev.pre) + FrameIndex(prev.n)
					if pend > rec.frame-FrameIndex(rec.pre) {
						c.Violate("c08:overlap", "isolated-mode records overlap: previous ends at %d, next starts at %d", pend, rec.frame-FrameIndex(rec.pre))
						return
					}
				}
			}
			// the trigger is within one sample of a sample satisfying the edge + monotonicity rule
			okq := false
			for d := -1; d <= 1; d++ {
				if vEMTQualifies(truth, rel+d, int(es.threshold), int(es.nmonotone), nsamp-npre) {
					okq = true
				}
			}
			if !okq {
				c.Violate("c08:unsound", "record at frame %d: no sample within ±1 satisfies the edge rule (threshold %d, nmonotone %d)", rec.frame, es.threshold, es.nmonotone)
				return
			}
			prev = rec
		}
	}
	if reconfAt < 0 {
		seg(rb, set)
	} else {
		var r1, r2 []vEMTRec
		nb1 := len(vGenPartitionCount(blocksB, reconfAt))
		for _, rec := range rb {
			if rec.blockIdx < nb1 {
				r1 = append(r1, rec)
			} else {
				r2 = append(r2, rec)
			}
		}
		seg(r1, set)
		seg(r2, set2)
	}
	// vacuity: was an edge pending within nsamp of a cut?
	for _, rec := range rb {
		rel := int(rec.frame - first)
		pos := 0
		for _, n := range blocksB {
			pos += n
			if pos-rel >= 0 && pos-rel <= nsamp {
				c.Cov("records_pending_at_cut", 1)
				break
			}
			if pos > rel+nsamp {
				break
			}
		}
	}
	if len(ra) > 0 {
		c.Nontrivial()
	}
}

// vGenPartitionCount returns the prefix of blocks that sums to exactly upto.
func vGenPartitionCount(blocks []int, upto int) []int {
	s := 0
	for i, n := range blocks {
		if s == upto {
			return blocks[:i]
		}
		s += n
	}
	return blocks
}

func vEqRaw(a, b []RawType) bool {
	if len(a) != len(b) {
		return false
	}
	for i := range a {
		if a[i] != b[i] {
			return false
		}
	}
	return true
}

func vFirstDiff(a, b []vEMTRec) string {
	for i := 0; i < len(a) && i < len(b); i++ {
		if a[i].frame != b[i].frame || a[i].pre != b[i].pre || a[i].n != b[i].n {
			return fmt.Sprintf("index %d: {%d,%d,%d} vs {%d,%d,%d}", i, a[i].frame, a[i].pre, a[i].n, b[i].frame, b[i].pre, b[i].n)
		}
	}
	if len(a) > len(b) {
		return fmt.Sprintf("index %d: {%d,%d,%d} vs nothing", len(b), a[len(b)].frame, a[len(b)].pre, a[len(b)].n)
	}
	if len(b) > len(a) {
		return fmt.Sprintf("index %d: nothing vs {%d,%d,%d}", len(a), b[len(a)].frame, b[len(a)].pre, b[len(a)].n)
	}
	return "none"
}

// ---------------------------------------------------------------- C09

type vPair struct{ s, r int }

func vRunC09(c *vCase) {
	r := c.R
	lanceroTyped := vChance(r, 0.3)
	nchan := 3 + r.Intn(6)
	if lanceroTyped && nchan%2 == 1 {
		nchan++
	}
	npre := 4 + r.Intn(20)
	nsamp := npre + 4 + r.Intn(40)
	period := 10 * time.Microsecond
	viperResetForFeed()
	var ds *AnySource
	var ls *LanceroSource
	if lanceroTyped {
		ls = new(LanceroSource)
		vInitAnySource(&ls.AnySource, nchan, period)
		ds = &ls.AnySource
	} else {
		ds = vNewAnySource(nchan, period)
	}
	if err := ds.PrepareChannels(); err != nil {
		c.Inconclusive("setup", "%v", err)
		return
	}
	if err := ds.PrepareRun(npre, nsamp); err != nil {
		c.Inconclusive("setup", "%v", err)
		return
	}
	f := &vFeed{ds: ds, nchan: nchan, period: period, signed: make([]bool, nchan), t0: time.Unix(vT0Unix, 0)}
	defer f.close()
	f.firstFrame = FrameIndex(vPick(r, 0, 1000, 1<<35))
	// only some channels have a trigger of their own; all use the same rising edge rule
	hasTrig := make([]bool, nchan)
	for ch := range hasTrig {
		hasTrig[ch] = vChance(r, 0.7)
	}
	hasTrig[r.Intn(nchan)] = true
	// in a third of the generic cases one channel triggers on a timer instead (auto trigger) and is never a receiver: every record
	// it emits is a primary, and each of them is owed to its receivers as a secondary like any other primary
	autoCh := -1
	if !lanceroTyped && nchan >= 3 && vChance(r, 0.33) {
		autoCh = r.Intn(nchan)
		hasTrig[autoCh] = false // (no planted pulses on it; its stream is flat)
		var ats TriggerState
		ats.AutoTrigger = true
		ats.AutoDelay = time.Duration(nsamp*(2+r.Intn(3))) * period
		if err := ds.ChangeTriggerState(&FullTriggerState{ChannelIndices: []int{autoCh}, TriggerState: ats}); err != nil {
			c.Inconclusive("setup", "%v", err)
			return
		}
		stillOne := false
		for ch := range hasTrig {
			stillOne = stillOne || hasTrig[ch]
		}
		if !stillOne {
			hasTrig[(autoCh+1)%nchan] = true
		}
		c.Cov("cases_with_an_auto_triggered_source", 1)
	}
	var ts TriggerState
	ts.EdgeTrigger, ts.EdgeRising, ts.EdgeLevel = true, true, 500
	for ch := 0; ch < nchan; ch++ {
		if hasTrig[ch] {
			st := FullTriggerState{ChannelIndices: []int{ch}, TriggerState: ts}
			if err := ds.ChangeTriggerState(&st); err != nil {
				c.Inconclusive("setup", "%v", err)
				return
			}
		}
	}
	// history: steps of (edits..., block)
	nsteps := 4 + r.Intn(26)
	blockLen := func() int { return vPick(r, nsamp/2+1, nsamp, 3*nsamp, 7*nsamp) + r.Intn(nsamp) }
	var lens []int
	total := 0
	for i := 0; i < nsteps; i++ {
		n := blockLen()
		lens = append(lens, n)
		total += n
	}
	// planted pulses: globally unique frames, >= nsamp+8 apart, each on one triggering channel
	f.truth = make([][]RawType, nchan)
	for ch := range f.truth {
		f.truth[ch] = make([]RawType, total)
		base := RawType(2000 + 100*ch)
		for i := range f.truth[ch] {
			f.truth[ch][i] = base
		}
	}
	// (one pulse in five is planted on two triggering channels at the same frame: a receiver's own primary then coincides
	// with a source's primary, and two sources of one receiver fire on the same frame)
	owner := map[int]map[int]bool{} // stream-relative sample -> channels with a pulse there
	at := npre + r.Intn(nsamp)
	earliest := c.Idx%4 == 1 // the first pulse sits on the earliest frame for which a full record exists
	if earliest {
		at = npre
	}
	firstOwner := -1
	for at+nsamp < total {
		ch := r.Intn(nchan)
		for !hasTrig[ch] {
			ch = r.Intn(nchan)
		}
		chs := []int{ch}
		if vChance(r, 0.2) {
			for try := 0; try < 8; try++ {
				if c2 := r.Intn(nchan); c2 != ch && hasTrig[c2] {
					chs = append(chs, c2)
					c.Cov("coincident_pulses", 1)
					break
				}
			}
		}
		if firstOwner < 0 {
			firstOwner = ch
		}
		owner[at] = map[int]bool{}
		for _, ch := range chs {
			owner[at][ch] = true
			// step up by 1000 at `at`, hold 3 samples, then decay slowly in small steps (no falling trigger enabled)
			for j := 0; j < nsamp/2 && at+j < total; j++ {
				v := 1000 - j*(2000/nsamp+1)
				if v < 0 {
					v = 0
				}
				f.truth[ch][at+j] += RawType(v)
			}
		}
		if vChance(r, 0.25) && nsamp > 2 {
			// a second pulse on another triggering channel less than one record later: two sources of one receiver then fire
			// within a record length of each other (every primary frame is a secondary of the receiver, however close they are)
			d := 1 + r.Intn(nsamp-1)
			for try := 0; try < 8 && at+d+nsamp < total; try++ {
				c2 := r.Intn(nchan)
				if !hasTrig[c2] || owner[at][c2] {
					continue
				}
				owner[at+d] = map[int]bool{c2: true}
				for j := 0; j < nsamp/2 && at+d+j < total; j++ {
					v := 1000 - j*(2000/nsamp+1)
					if v < 0 {
						v = 0
					}
					f.truth[c2][at+d+j] += RawType(v)
				}
				c.Cov("pulses_within_a_record_of_another_channels_pulse", 1)
				at += d
				break
			}
		}
		at += nsamp + 8 + r.Intn(2*nsamp)
	}
	model := map[vPair]bool{}
	checkReported := func(step int, what string) bool {
		rep := ds.ComputeGroupTriggerState().Connections
		got := map[vPair]bool{}
		for s, rxs := range rep {
			for _, rx := range rxs {
				if got[vPair{s, rx}] {
					c.Violate("c09:reported-duplicate", "step %d after %s: connection %d->%d reported twice", step, what, s, rx)
					return false
				}
				got[vPair{s, rx}] = true
			}
		}
		for p := range got {
			if !model[p] {
				c.Violate("c09:reported-extra", "step %d after %s: reported connection %d->%d is not in the set-theoretic result %v", step, what, p.s, p.r, vPairs(model))
				return false
			}
		}
		for p := range model {
			if !got[p] {
				c.Violate("c09:reported-missing", "step %d after %s: connection %d->%d missing from the reported state %v", step, what, p.s, p.r, rep)
				return false
			}
		}
		c.Cov("state_checks", 1)
		return true
	}
	idx := func() int {
		switch r.Intn(10) {
		case 0:
			return -1 - r.Intn(3)
		case 1:
			return nchan + r.Intn(3)
		case 2:
			return 1 << 20
		}
		return r.Intn(nchan)
	}
	valid := func(i int) bool { return i >= 0 && i < nchan }
	var hist []string
	for step := 0; step < nsteps; step++ {
		nedits := r.Intn(4)
		if step == 0 {
			nedits = 1 + r.Intn(4)
		}
		if step == 0 && earliest && firstOwner >= 0 && nchan > 1 {
			// the channel of that first pulse feeds another channel from the start
			rx := (firstOwner + 1 + r.Intn(nchan-1)) % nchan
			if rx == autoCh {
				rx = (rx + 1) % nchan
				if rx == firstOwner {
					rx = (rx + 1) % nchan
				}
			}
			ds.ChangeGroupTrigger(true, &GroupTriggerState{Connections: map[int][]int{firstOwner: {rx}}})
			model[vPair{firstOwner, rx}] = true
			hist = append(hist, fmt.Sprintf("add %d>%d", firstOwner, rx))
			c.Cov("first_pulse_on_earliest_frame_with_receiver", 1)
		}
		for e := 0; e < nedits; e++ {
			k := r.Intn(12)
			switch {
			case k < 6: // add
				conns := map[int][]int{}
				np := 1 + r.Intn(3)
				var desc []string
				for q := 0; q < np; q++ {
					s, rx := idx(), idx()
					if autoCh >= 0 && rx == autoCh {
						rx = (autoCh + 1) % nchan
					}
					if autoCh >= 0 && vChance(r, 0.4) {
						s = autoCh
					}
					conns[s] = append(conns[s], rx)
					desc = append(desc, fmt.Sprintf("%d>%d", s, rx))
				}
				ds.ChangeGroupTrigger(true, &GroupTriggerState{Connections: conns})
				for s, rxs := range conns {
					for _, rx := range rxs {
						if valid(s) && valid(rx) && s != rx {
							model[vPair{s, rx}] = true
						} else if !valid(s) || !valid(rx) {
							c.Cov("invalid_index_edits", 1)
						}
					}
				}
				hist = append(hist, "add "+strings.Join(desc, ","))
				c.Cov("edits_add", 1)
			case k < 9: // delete
				conns := map[int][]int{}
				var desc []string
				np := 1 + r.Intn(3)
				for q := 0; q < np; q++ {
					s, rx := idx(), idx()
					if vChance(r, 0.6) && len(model) > 0 { // delete something that exists
						for p := range model {
							s, rx = p.s, p.r
							break
						}
					}
					conns[s] = append(conns[s], rx)
					desc = append(desc, fmt.Sprintf("%d>%d", s, rx))
				}
				ds.ChangeGroupTrigger(false, &GroupTriggerState{Connections: conns})
				for s, rxs := range conns {
					for _, rx := range rxs {
						delete(model, vPair{s, rx})
					}
				}
				hist = append(hist, "del "+strings.Join(desc, ","))
				c.Cov("edits_delete", 1)
			case k == 9:
				ds.StopTriggerCoupling()
				model = map[vPair]bool{}
				hist = append(hist, "stop")
				c.Cov("edits_stop", 1)
			default:
				if !lanceroTyped {
					// generic sources accept only NoCoupling
					if err := ds.SetCoupling(NoCoupling); err != nil {
						c.Violate("c09:nocoupling-rejected", "SetCoupling(NoCoupling) returned %v", err)
						return
					}
					if err := ds.SetCoupling(FBToErr); err == nil {
						c.Violate("c09:coupling-accepted", "generic source accepted FB/err coupling")
						return
					}
					hist = append(hist, "couple-generic")
					continue
				}
				st := vPick(r, NoCoupling, FBToErr, ErrToFB)
				ls.SetCoupling(st)
				for i := 0; i < nchan; i += 2 {
					delete(model, vPair{i, i + 1})
					delete(model, vPair{i + 1, i})
					if st == ErrToFB {
						model[vPair{i, i + 1}] = true
					}
					if st == FBToErr {
						model[vPair{i + 1, i}] = true
					}
				}
				hist = append(hist, fmt.Sprintf("couple %d", st))
				c.Cov("edits_coupling", 1)
			}
			if !checkReported(step, hist[len(hist)-1]) {
				c.Describe("%v", hist)
				return
			}
		}
		if len(model) == 0 {
			c.Cov("cycles_with_empty_set", 1)
		}
		recs, err := f.push(lens[step], nil, 0)
		if err != nil {
			c.Violate("c09:process-error", "ProcessSegments error: %v", err)
			return
		}
		// classify
		prim := map[int][]int{} // channel -> primary frames (relative)
		sec := map[int][]int{}
		seenPrim := map[vPair]bool{}
		for _, rec := range recs {
			rel := int(rec.trigFrame - f.firstFrame)
			ch := rec.channelIndex
			a := rel - rec.presamples
			if a < 0 || a+len(rec.data) > f.pos || !vEqRaw(f.truth[ch][a:a+len(rec.data)], rec.data) {
				c.Violate("c09:samples", "record %s does not carry channel %d's own samples around frame %d", vFmtRec(rec), ch, rec.trigFrame)
				return
			}
			// the first record of a channel at a frame where it has a planted pulse is its primary; any further one is a secondary
			if ch == autoCh {
				prim[ch] = append(prim[ch], rel) // never a receiver: everything it emits is a primary
				c.Cov("auto_primaries", 1)
				continue
			}
			if owner[rel][ch] && !seenPrim[vPair{ch, rel}] {
				seenPrim[vPair{ch, rel}] = true
				prim[ch] = append(prim[ch], rel)
			} else {
				sec[ch] = append(sec[ch], rel)
				if _, planted := owner[rel]; !planted && autoCh < 0 {
					c.Violate("c09:unexplained-record", "record %s is neither a planted primary nor at the frame of any primary", vFmtRec(rec))
					return
				}
			}
		}
		nsec := 0
		for rx := 0; rx < nchan; rx++ {
			var want []int
			for p := range model {
				if p.r == rx {
					want = append(want, prim[p.s]...)
				}
			}
			sort.Ints(want)
			got := append([]int(nil), sec[rx]...)
			sort.Ints(got)
			// every frame of the sources' primaries at least once and at most as often as sources fired on it (when two
			// sources fire on the same frame the statement's "union" can be read either way), and nothing else
			okSec := true
			wm, gm := map[int]int{}, map[int]int{}
			for _, x := range want {
				wm[x]++
			}
			for _, x := range got {
				gm[x]++
			}
			for x, n := range wm {
				if gm[x] < 1 || gm[x] > n {
					okSec = false
				}
			}
			for x := range gm {
				if wm[x] == 0 {
					okSec = false
				}
			}
			if !okSec {
				c.Violate("c09:secondaries", "step %d (history %v): channel %d emitted secondaries at %v, but its sources %v had primaries %v this cycle (connections %v)",
					step, hist, rx, got, vSourcesOf(model, rx), want, vPairs(model))
				return
			}
			nsec += len(got)
		}
		if nsec > 0 {
			c.Cov("cycles_with_secondaries", 1)
			c.Cov("secondaries", nsec)
		}
		for _, p := range prim {
			c.Cov("primaries", len(p))
		}
		c.Cov("cycles", 1)
	}
	c.Describe("C09 nchan=%d lancero=%v npre/nsamp=%d/%d first=%d hist=%v lens=%v", nchan, lanceroTyped, npre, nsamp, f.firstFrame, hist, lens)
	c.Nontrivial()
}

func vPairs(m map[vPair]bool) string {
	var s []string
	for p := range m {
		s = append(s, fmt.Sprintf("%d>%d", p.s, p.r))
	}
	sort.Strings(s)
	return "[" + strings.Join(s, " ") + "]"
}

func vSourcesOf(m map[vPair]bool, rx int) []int {
	var s []int
	for p := range m {
		if p.r == rx {
			s = append(s, p.s)
		}
	}
	sort.Ints(s)
	return s
}

func init() {
	vRegister("C08", &vProp{
		Cases: func(tier string) int {
			if tier == "thorough" {
				return 24000
			}
			return 800
		},
		Run: vRunC08,
		Meta: vMeta{
			Level:       "exploration",
			Rule:        "case = (npre/nsamp satisfying the validity rule incl. the 4/8 minimum, edge-multi mode, threshold of either sign, nmonotone, zero-threshold on/off, first frame, one-channel stream with pulse trains at spacings from 1 sample to several records, optionally an edge on/next to the first searchable sample, optionally a reconfiguration mid-stream, block partition family); the same stream is run as one block (two with a reconfiguration) and as the partition through the real ProcessSegments; record lists must be identical and structurally sane; non-trivial = at least one record",
			Assumptions: []string{"the one-block run is the reference for the partition run (metamorphic); structural checks (order, lengths, non-overlap, excerpt, each trigger within ±1 sample of a sample satisfying the edge+monotonicity rule) are independent of the code"},
			Guards: map[string]map[string]int{
				"quick":    {"records": 5000, "records_pending_at_cut": 1000, "edge_at_first_cases": 100, "edge_at_first_after_reconf": 30, "varlen_pairs": 500, "distinct:mode": 3},
				"thorough": {"records": 150000, "records_pending_at_cut": 30000, "edge_at_first_cases": 3000, "edge_at_first_after_reconf": 900, "varlen_pairs": 15000, "distinct:mode": 3},
			},
		},
	})
	vRegister("C09", &vProp{
		Cases: func(tier string) int {
			if tier == "thorough" {
				return 8000
			}
			return 400
		},
		Run: func(c *vCase) {
			if c.Idx%7 == 6 { // a session against the RPC-level server: what clients are told after each edit
				vRunControlGroupFocus(c)
				return
			}
			vRunC09(c)
		},
		Meta: vMeta{
			Level:       "exploration",
			Rule:        "case = history of 4-30 steps; each step = 0-4 edits (add/delete with valid, repeated, self, negative and too-large indices; stop-coupling; err/fb coupling on a Lancero-typed source) then one block with pulses planted at distinct frames, each on one channel or (one in five) on two channels at once; after every edit the reported connections are compared with a set model, after every block the multiset of secondaries per receiver with the union of its model sources' primaries; non-trivial = every completed history. 1 of 7 cases is instead a session of the C11 harness against an in-package SourceControl (Triangle / scripted Lancero / self-ending sources) made mostly of add/delete/stop-coupling requests incl. partly valid ones: after each, the connection set read from inside the core loop is compared with the GROUPTRIGGER update sent to clients (or, when none was sent, with the set before the request)",
			Assumptions: []string{"primaries are told from secondaries by construction: a record at frame f on channel c is a primary iff a pulse was planted at f on c (flat elsewhere)"},
			Guards: map[string]map[string]int{
				"quick":    {"cycles_with_secondaries": 300, "secondaries": 1000, "invalid_index_edits": 100, "edits_stop": 50, "edits_coupling": 30, "cycles_with_empty_set": 100, "state_checks": 2000},
				"thorough": {"cycles_with_secondaries": 6000, "secondaries": 20000, "invalid_index_edits": 2000, "edits_stop": 1000, "edits_coupling": 600, "cycles_with_empty_set": 2000},
			},
		},
	})
}
