package PKGNAME

// Harness core shared by every in-package harness (see /verif/DESIGN.md §2.2).
// The driver (/verif/check) substitutes the package name and overlays this file
// into the package under test as zz_verif_core_test.go.

import (
	"encoding/json"
	"fmt"
	"hash/fnv"
	"math/rand"
	"os"
	"path/filepath"
	"regexp"
	"runtime"
	"runtime/debug"
	"strconv"
	"strings"
	"sync"
	"testing"
	"time"
)

// vCase is one deterministic case: everything is derived from (prop, tier, seed, idx).
type vCase struct {
	Prop string
	Tier string
	Seed int64
	Idx  int
	R    *rand.Rand
	Dir  string // private scratch directory (removed after the case)

	mu       sync.Mutex
	res      vResult
	descr    []string
	distinct map[string]bool
}

type vResult struct {
	Idx        int            `json:"idx"`
	Kind       string         `json:"kind"` // held | violation | inconclusive
	Sig        string         `json:"sig,omitempty"`
	Detail     string         `json:"detail,omitempty"`
	Cov        map[string]int `json:"cov,omitempty"`
	Distinct   []string       `json:"distinct,omitempty"`
	Nontrivial bool           `json:"nontrivial"`
	Hash       string         `json:"hash,omitempty"`
	Sample     any            `json:"sample,omitempty"`
}

type vMeta struct {
	Level       string                    `json:"level"`
	Rule        string                    `json:"rule"`
	Assumptions []string                  `json:"assumptions"`
	Guards      map[string]map[string]int `json:"guards"` // tier -> counter -> minimum
	Exhaustive  bool                      `json:"exhaustive,omitempty"`
}

type vProp struct {
	Cases func(tier string) int
	Run   func(c *vCase)
	Meta  vMeta
	Setup func(tier string) // once per process, before the first case
}

var vRegistry = map[string]*vProp{}

func vRegister(id string, p *vProp) { vRegistry[id] = p }

// Violate records the first violation of the case (later ones are counted only).
func (c *vCase) Violate(sig string, format string, args ...any) {
	c.mu.Lock()
	defer c.mu.Unlock()
	c.covLocked("violations_seen", 1)
	if c.res.Kind == "violation" {
		return
	}
	c.res.Kind = "violation"
	c.res.Sig = sig
	c.res.Detail = fmt.Sprintf(format, args...)
	if len(c.res.Detail) > 4000 {
		c.res.Detail = c.res.Detail[:4000] + "…"
	}
}

func (c *vCase) Violated() bool {
	c.mu.Lock()
	defer c.mu.Unlock()
	return c.res.Kind == "violation"
}

// Inconclusive marks the case inconclusive unless it already is a violation.
func (c *vCase) Inconclusive(sig string, format string, args ...any) {
	c.mu.Lock()
	defer c.mu.Unlock()
	if c.res.Kind == "violation" || c.res.Kind == "inconclusive" {
		return
	}
	c.res.Kind = "inconclusive"
	c.res.Sig = sig
	c.res.Detail = fmt.Sprintf(format, args...)
}

func (c *vCase) covLocked(key string, n int) {
	if c.res.Cov == nil {
		c.res.Cov = map[string]int{}
	}
	if strings.HasPrefix(key, "max:") {
		if n > c.res.Cov[key] {
			c.res.Cov[key] = n
		}
		return
	}
	c.res.Cov[key] += n
}

// Cov adds n to a coverage counter (keys starting with "max:" keep the maximum).
func (c *vCase) Cov(key string, n int) {
	c.mu.Lock()
	defer c.mu.Unlock()
	c.covLocked(key, n)
}

// Distinct records a value whose distinct count over the whole run is reported.
func (c *vCase) Distinct(key string, val any) {
	c.mu.Lock()
	defer c.mu.Unlock()
	if c.distinct == nil {
		c.distinct = map[string]bool{}
	}
	s := fmt.Sprintf("%s=%v", key, val)
	if !c.distinct[s] && len(c.distinct) < 64 {
		c.distinct[s] = true
		c.res.Distinct = append(c.res.Distinct, s)
	}
}

// Describe appends to the description that identifies (and hashes) the case.
func (c *vCase) Describe(format string, args ...any) {
	c.mu.Lock()
	defer c.mu.Unlock()
	c.descr = append(c.descr, fmt.Sprintf(format, args...))
}

// Note records, in the journal, a fact about the running case that survives a crash of the process (e.g. the
// fault that has just been injected); the driver appends the notes of a crashed case to its crash signature.
func (c *vCase) Note(note string) {
	vWriteLine(vJournal, map[string]any{"ev": "note", "idx": c.Idx, "note": note})
	vJournal.Sync()
}

func (c *vCase) Nontrivial() { c.mu.Lock(); c.res.Nontrivial = true; c.mu.Unlock() }

func (c *vCase) SetSample(s any) { c.mu.Lock(); c.res.Sample = s; c.mu.Unlock() }

func vSubSeed(seed int64, prop string, idx int) int64 {
	h := fnv.New64a()
	fmt.Fprintf(h, "%d/%s/%d", seed, prop, idx)
	return int64(h.Sum64() & 0x7fffffffffffffff)
}

// vRestartAfterCase asks the case runner to end this process after the current case; the driver starts a fresh one.
var vRestartAfterCase bool

var vOutDir string
var vJournal, vResults *os.File
var vOutMu sync.Mutex

func vWriteLine(f *os.File, v any) {
	b, _ := json.Marshal(v)
	vOutMu.Lock()
	f.Write(append(b, '\n'))
	vOutMu.Unlock()
}

// vPanicSig builds a signature for a panic recovered in the case goroutine.
func vPanicSig(r any, stack string) string {
	msg := fmt.Sprint(r)
	re := regexp.MustCompile(`0x[0-9a-f]+`)
	msg = re.ReplaceAllString(msg, "0xN")
	msg = regexp.MustCompile(`\d+`).ReplaceAllString(msg, "N")
	if len(msg) > 160 {
		msg = msg[:160]
	}
	frame := vTopRepoFrame(stack)
	return "panic:" + msg + "@" + frame
}

func vRunCase(p *vProp, prop, tier string, seed int64, idx int) {
	c := &vCase{Prop: prop, Tier: tier, Seed: seed, Idx: idx}
	c.R = rand.New(rand.NewSource(vSubSeed(seed, prop, idx)))
	c.res.Idx = idx
	c.res.Kind = "held"
	c.Dir = filepath.Join(vOutDir, fmt.Sprintf("case%d", idx))
	os.MkdirAll(c.Dir, 0o755)
	vWriteLine(vJournal, map[string]any{"ev": "start", "idx": idx})
	done := make(chan struct{})
	go vCaseMarker(done, func() {
		defer func() {
			if r := recover(); r != nil {
				st := string(debug.Stack())
				c.Violate(vPanicSig(r, st), "panic in case goroutine: %v\n%s", r, vTrim(st, 3000))
			}
		}()
		p.Run(c)
	})
	select {
	case <-done:
	case <-time.After(vCaseTimeout):
		// The case itself does not come back (a call into the code under test that the harness did not expect to
		// block). Same decision procedure as vWatched: parked in the same frames in two dumps, nothing runnable => hang.
		d1 := vDump()
		time.Sleep(2 * time.Second)
		d2 := vDump()
		g1, s1 := vFindMarkedBy(d1, "vCaseMarker")
		g2, s2 := vFindMarkedBy(d2, "vCaseMarker")
		select {
		case <-done:
		default:
			vRestartAfterCase = true
			if g1 != "" && vFrames(g1) == vFrames(g2) && !vAnyRunnableRepo(d2) {
				c.Violate("hang:case@"+vTopRepoFrame(g2), "the case did not finish within %v: its goroutine is parked [%s/%s] in the same frames in two dumps 2 s apart and no repository goroutine is runnable\n%s", vCaseTimeout, s1, s2, vTrim(g2, 2500))
			} else {
				c.Inconclusive("slow:case", "the case did not finish within %v and the wait-state analysis is not conclusive", vCaseTimeout)
			}
		}
	}
	os.RemoveAll(c.Dir)
	c.mu.Lock()
	h := fnv.New64a()
	for _, d := range c.descr {
		h.Write([]byte(d))
		h.Write([]byte{0})
	}
	if len(c.descr) == 0 {
		fmt.Fprintf(h, "%d/%d", seed, idx)
	}
	c.res.Hash = strconv.FormatUint(h.Sum64(), 16)
	if c.res.Sample == nil && (idx < 2 || c.res.Kind == "violation") {
		c.res.Sample = map[string]any{"idx": idx, "seed": seed, "case": c.descr}
	}
	res := c.res
	c.mu.Unlock()
	vWriteLine(vResults, res)
	vWriteLine(vJournal, map[string]any{"ev": "end", "idx": idx})
	if vRestartAfterCase && os.Getenv("VERIF_ONLY") == "" {
		// the harness's per-process environment is no longer usable (set by the harness): continue in a fresh process
		vJournal.Sync()
		vResults.Sync()
		os.Exit(77)
	}
	// A case that left goroutines of the system under test wedged or leaked has contaminated this process
	// (later goroutine censuses and wait-state analyses would see its leftovers): let the driver start a fresh one.
	if res.Kind == "violation" && (strings.HasPrefix(res.Sig, "hang:") || strings.Contains(res.Sig, "goroutine-leak") || strings.Contains(res.Sig, "data-stalled") || strings.Contains(res.Sig, "core-loop-gone")) && os.Getenv("VERIF_ONLY") == "" {
		vJournal.Sync()
		vResults.Sync()
		os.Exit(77)
	}
}

func vTrim(s string, n int) string {
	if len(s) > n {
		return s[:n] + "…"
	}
	return s
}

// TestVerif is the single entry point used by /verif/check.
func TestVerif(t *testing.T) {
	prop := os.Getenv("VERIF_PROP")
	p := vRegistry[prop]
	if p == nil {
		t.Fatalf("no harness registered for %q in this package", prop)
	}
	tier := os.Getenv("VERIF_TIER")
	if tier == "" {
		tier = "quick"
	}
	seed, _ := strconv.ParseInt(os.Getenv("VERIF_SEED"), 10, 64)
	shard, nshards := 0, 1
	fmt.Sscanf(os.Getenv("VERIF_SHARD"), "%d/%d", &shard, &nshards)
	if nshards < 1 {
		nshards = 1
	}
	resume := -1
	if s := os.Getenv("VERIF_RESUME_AFTER"); s != "" {
		resume, _ = strconv.Atoi(s)
	}
	vOutDir = os.Getenv("VERIF_OUT")
	if vOutDir == "" {
		vOutDir, _ = os.MkdirTemp("", "verif")
	}
	var err error
	vJournal, err = os.OpenFile(filepath.Join(vOutDir, "journal.jsonl"), os.O_CREATE|os.O_WRONLY|os.O_APPEND, 0o644)
	if err != nil {
		t.Fatal(err)
	}
	vResults, err = os.OpenFile(filepath.Join(vOutDir, "results.jsonl"), os.O_CREATE|os.O_WRONLY|os.O_APPEND, 0o644)
	if err != nil {
		t.Fatal(err)
	}
	if resume < 0 {
		vWriteLine(vResults, map[string]any{"meta": p.Meta})
	}
	if p.Setup != nil {
		p.Setup(tier)
	}
	if only := os.Getenv("VERIF_ONLY"); only != "" {
		idx, _ := strconv.Atoi(only)
		vRunCase(p, prop, tier, seed, idx)
	} else {
		n := p.Cases(tier)
		for idx := shard; idx < n; idx += nshards {
			if idx <= resume {
				continue
			}
			vRunCase(p, prop, tier, seed, idx)
		}
	}
	os.WriteFile(filepath.Join(vOutDir, "done"), []byte("ok\n"), 0o644)
}

// ---------------------------------------------------------------- watchdog / wait-state analysis (§2.6)

// vWatched runs f in its own goroutine (marked by this frame). It returns true if f
// returned. If f has not returned after `patience`, two goroutine dumps 2 s apart decide:
// parked in the same blocking frame in both, with no runnable repository goroutine => hang
// (violation with the dump as witness); otherwise inconclusive.
func vWatched(c *vCase, what string, patience time.Duration, f func()) bool {
	done := make(chan struct{})
	go vWatchedMarker(done, f)
	select {
	case <-done:
		return true
	case <-time.After(patience):
	}
	d1 := vDump()
	select {
	case <-done:
		return true
	case <-time.After(2 * time.Second):
	}
	d2 := vDump()
	select {
	case <-done:
		return true
	default:
	}
	g1, s1 := vFindMarked(d1)
	g2, s2 := vFindMarked(d2)
	parked := func(s string) bool {
		for _, k := range []string{"chan receive", "chan send", "select", "sync.WaitGroup.Wait", "sync.Mutex.Lock", "semacquire", "sync.Cond.Wait", "sync.RWMutex"} {
			if strings.HasPrefix(s, k) {
				return true
			}
		}
		return false
	}
	if g1 != "" && vFrames(g1) == vFrames(g2) && parked(s1) && parked(s2) && !vAnyRunnableRepo(d2) {
		c.Violate("hang:"+what+"@"+vTopRepoFrame(g2), "%s did not return: its goroutine is parked [%s] in the same frames in two dumps 2s apart after %v and no repository goroutine is runnable.\n%s",
			what, s2, patience, vTrim(g2, 2500))
		return false
	}
	c.Inconclusive("slow:"+what, "%s had not returned after %v but the wait-state analysis is not conclusive (state %q/%q)", what, patience, s1, s2)
	return false
}

// vCaseTimeout bounds one case (the longest legitimate cases take well under a minute).
const vCaseTimeout = 120 * time.Second

func vCaseMarker(done chan struct{}, f func()) {
	defer close(done)
	f()
}

func vFindMarkedBy(dump, marker string) (block, state string) {
	for _, b := range strings.Split(dump, "\n\n") {
		if strings.Contains(b, marker) {
			first := strings.SplitN(b, "\n", 2)[0]
			if i := strings.Index(first, "["); i >= 0 {
				state = strings.TrimSuffix(strings.TrimSpace(first[i+1:]), "]:")
			}
			return b, state
		}
	}
	return "", ""
}

func vWatchedMarker(done chan struct{}, f func()) {
	defer close(done)
	f()
}

func vDump() string {
	buf := make([]byte, 1<<20)
	for {
		n := runtime.Stack(buf, true)
		if n < len(buf) {
			return string(buf[:n])
		}
		buf = make([]byte, 2*len(buf))
	}
}

func vFindMarked(dump string) (block, state string) {
	for _, b := range strings.Split(dump, "\n\n") {
		if strings.Contains(b, "vWatchedMarker") {
			first := strings.SplitN(b, "\n", 2)[0]
			if i := strings.Index(first, "["); i >= 0 {
				state = strings.TrimSuffix(strings.TrimSpace(first[i+1:]), "]:")
				if j := strings.Index(state, ","); j >= 0 {
					state = state[:j]
				}
			}
			return b, state
		}
	}
	return "", ""
}

// vFrames reduces a goroutine block to its function names (no arguments, no addresses).
func vFrames(block string) string {
	var out []string
	for _, l := range strings.Split(block, "\n")[1:] {
		if strings.HasPrefix(l, "\t") || strings.HasPrefix(l, " ") {
			continue
		}
		if i := strings.LastIndex(l, "("); i > 0 {
			l = l[:i]
		}
		out = append(out, l)
	}
	return strings.Join(out, ";")
}

func vTopRepoFrame(block string) string {
	lines := strings.Split(block, "\n")
	for i := 0; i+1 < len(lines); i++ {
		l := strings.TrimSpace(lines[i])
		if strings.HasPrefix(l, "github.com/usnistgov/dastard") && strings.Contains(lines[i+1], ".go:") && !strings.Contains(lines[i+1], "zz_verif_") {
			if j := strings.LastIndex(l, "("); j > 0 {
				l = l[:j]
			}
			return strings.Replace(l, "github.com/usnistgov/dastard", "dastard", 1)
		}
	}
	return "?"
}

func vAnyRunnableRepo(dump string) bool {
	for _, b := range strings.Split(dump, "\n\n") {
		first := strings.SplitN(b, "\n", 2)[0]
		if !(strings.Contains(first, "[running") || strings.Contains(first, "[runnable") || strings.Contains(first, "[sleep") || strings.Contains(first, "[syscall")) {
			continue
		}
		if strings.Contains(b, "vDump") || strings.Contains(b, "vFlowWait") {
			continue // (a scripted device held back by the harness's flow control is waiting for the stalled consumer, not working)
		}
		if vTopRepoFrame(b) != "?" {
			return true
		}
	}
	return false
}

// vGoroutinesIn returns the goroutine blocks whose stack contains any of the given substrings
// in a repository (non-harness) frame.
func vGoroutinesIn(subs ...string) []string {
	var out []string
	for _, b := range strings.Split(vDump(), "\n\n") {
		for _, s := range subs {
			if strings.Contains(b, s) {
				out = append(out, b)
				break
			}
		}
	}
	return out
}

// ---------------------------------------------------------------- small helpers

func vPick[T any](r *rand.Rand, xs ...T) T { return xs[r.Intn(len(xs))] }

func vRange(r *rand.Rand, lo, hi int) int { // inclusive
	if hi <= lo {
		return lo
	}
	return lo + r.Intn(hi-lo+1)
}

func vChance(r *rand.Rand, p float64) bool { return r.Float64() < p }
