package PKGNAME

// C18: the shared-memory ring buffer is a loss-free, duplication-free FIFO across wrap.
// Real shared memory: one handle Create()s and writes, a second handle Open()s and reads.

import (
	"fmt"
	"os"
)

func vRingByte(pos uint64) byte { return byte((pos*2654435761 + pos>>8) >> 3) }

func vRunC18(c *vCase) {
	r := c.R
	size := vPick(r, 2, 3, 4, 5, 7, 8, 16, 17, 64, 100, 255, 256, 1000, 4096)
	if vChance(r, 0.3) {
		size = 2 + r.Intn(4095)
	}
	big := vChance(r, 0.03)
	if big {
		// rings of several MiB (the production ring is larger still): single reads of more than a MiB, few operations
		size = vPick(r, 2<<20, 3<<20, (4<<20)+17, 40000, 100000, 65536)
		c.Cov("histories_on_rings_of_several_MiB", 1)
	}
	name := fmt.Sprintf("verif_%d_%d", os.Getpid(), c.Idx)
	if vChance(r, 0.25) {
		// an earlier ring under the same names, used and then abandoned without unlinking: the ring created now is a new, empty FIFO
		old, _ := NewRingBuffer(name+"_buffer", name+"_description")
		if old.Create(vPick(r, 64, 100, size)) == nil {
			junk := make([]byte, 10+r.Intn(50))
			for i := range junk {
				junk[i] = 0xA5
			}
			old.Write(junk)
			old.Read(1 + r.Intn(9))
			old.Close()
			c.Cov("created_over_an_abandoned_ring", 1)
		}
	}
	w, _ := NewRingBuffer(name+"_buffer", name+"_description")
	if err := w.Create(size); err != nil {
		c.Inconclusive("setup", "Create(%d): %v", size, err)
		return
	}
	defer w.Unlink()
	defer w.Close()
	rd, _ := NewRingBuffer(name+"_buffer", name+"_description")
	if err := rd.Open(); err != nil {
		c.Inconclusive("setup", "Open: %v", err)
		return
	}
	defer func() { rd.Close() }()
	if vChance(r, 0.3) { // start somewhere else than pointer 0 (both pointers equal: an empty ring)
		start := uint64(vPick(r, 1, size-1, size, size+1, 1<<20, 1<<40)) + uint64(r.Intn(size))
		w.desc.writePointer = start
		w.desc.readPointer = start
	}
	base := w.desc.writePointer
	var wpos, rpos uint64 // bytes accepted / consumed since start
	nops := 20 + r.Intn(400)
	if big {
		nops = 10 + r.Intn(30)
	}
	sz := func() int {
		free := size - 1 - int(wpos-rpos)
		held := int(wpos - rpos)
		return vPick(r, 0, 1, 2, free, free+1, free-1, held, held+1, held-1, size, size+3, 3*size, r.Intn(size+2), r.Intn(size+2))
	}
	var hist []string
	note := func(f string, a ...any) {
		if len(hist) < 400 {
			hist = append(hist, fmt.Sprintf(f, a...))
		}
	}
	tail := func() []string {
		if len(hist) > 14 {
			return hist[len(hist)-14:]
		}
		return hist
	}
	checkRead := func(op string, data []byte, maxLen int, multipleOf int) bool {
		cp := append([]byte(nil), data...) // the API returns views into the mapping
		avail := int(wpos - rpos)
		if len(cp) > avail {
			c.Violate("c18:read-too-much", "size %d: %s returned %d bytes but only %d were unread; history %v", size, op, len(cp), avail, tail())
			return false
		}
		if maxLen >= 0 && len(cp) > maxLen {
			c.Violate("c18:read-exceeds-request", "size %d: %s returned %d bytes, more than requested (%d); history %v", size, op, len(cp), maxLen, tail())
			return false
		}
		if multipleOf > 0 && len(cp)%multipleOf != 0 {
			c.Violate("c18:not-multiple", "size %d: %s returned %d bytes, not a multiple of %d; history %v", size, op, len(cp), multipleOf, tail())
			return false
		}
		for i, b := range cp {
			if b != vRingByte(base+rpos+uint64(i)) {
				c.Violate("c18:fifo", "size %d: %s returned byte %d = %#x but the next unread byte at stream position %d is %#x (skipped, repeated or reordered data); history %v",
					size, op, i, b, rpos+uint64(i), vRingByte(base+rpos+uint64(i)), tail())
				return false
			}
		}
		if (rpos%uint64(size))+uint64(len(cp)) > uint64(size) || ((base+rpos)%uint64(size))+uint64(len(cp)) > uint64(size) {
			c.Cov("reads_across_wrap", 1)
		}
		rpos += uint64(len(cp))
		c.Cov("bytes_read", len(cp))
		return true
	}
	for op := 0; op < nops; op++ {
		if vChance(r, 0.03) {
			// the reader detaches and attaches again in mid-stream: what was written and not yet read is still to be read
			rd.Close()
			rd2, _ := NewRingBuffer(name+"_buffer", name+"_description")
			if err := rd2.Open(); err != nil {
				c.Inconclusive("setup", "re-Open: %v", err)
				return
			}
			rd = rd2
			note("reopen")
			c.Cov("reader_reattached", 1)
		}
		switch k := r.Intn(10); {
		case k < 4: // write
			n := sz()
			if n < 0 {
				n = 0
			}
			data := make([]byte, n)
			for i := range data {
				data[i] = vRingByte(base + wpos + uint64(i))
			}
			free := size - 1 - int(wpos-rpos)
			got, err := w.Write(data)
			note("Write(%d)=%d", n, got)
			if err != nil {
				c.Violate("c18:write-error", "Write(%d) error %v", n, err)
				return
			}
			if got < 0 || got > n || got > free {
				c.Violate("c18:write-overrun", "size %d: Write(%d) accepted %d with %d free; history %v", size, n, got, free, tail())
				return
			}
			if n > 0 && free > 0 && got == 0 {
				c.Violate("c18:write-refused", "size %d: Write(%d) accepted nothing with %d free; history %v", size, n, free, tail())
				return
			}
			if got == free && free > 0 {
				c.Cov("exactly_full", 1)
			}
			if ((base+wpos)%uint64(size))+uint64(got) > uint64(size) {
				c.Cov("writes_across_wrap", 1)
			}
			wpos += uint64(got)
			c.Cov("bytes_written", got)
			if bw := w.BytesWriteable(); bw != size-1-int(wpos-rpos) {
				c.Violate("c18:writeable", "size %d: BytesWriteable()=%d, model %d; history %v", size, bw, size-1-int(wpos-rpos), tail())
				return
			}
		case k < 6:
			n := sz()
			if vChance(r, 0.05) {
				n = -1 - r.Intn(3)
			}
			avail := int(wpos - rpos)
			data, err := rd.Read(n)
			note("Read(%d)=%d", n, len(data))
			if err != nil {
				c.Violate("c18:read-error", "Read(%d) error %v", n, err)
				return
			}
			mx := n
			if mx < 0 {
				mx = 0
			}
			if !checkRead(fmt.Sprintf("Read(%d)", n), data, mx, 0) {
				return
			}
			if n > 0 && avail > 0 && len(data) == 0 {
				c.Violate("c18:read-refused", "size %d: Read(%d) returned nothing with %d unread; history %v", size, n, avail, tail())
				return
			}
			if wpos == rpos {
				c.Cov("exactly_empty", 1)
			}
		case k < 8:
			kk := vPick(r, 1, 2, 3, 4, 7, 8, size-1, size, size+1, 1+r.Intn(size))
			if size > 3*8192 && vChance(r, 0.4) {
				kk = vPick(r, 8192, 8192, 4096, 3000, 16384) // the packet size the ring's description states, as its consumer reads
			}
			if kk < 1 {
				kk = 1
			}
			avail := int(wpos - rpos)
			data, err := rd.ReadMultipleOf(kk)
			note("ReadMultipleOf(%d)=%d", kk, len(data))
			if err != nil {
				if kk < size {
					c.Violate("c18:readmultiple-error", "size %d: ReadMultipleOf(%d) error %v", size, kk, err)
					return
				}
				continue // documented: chunk must be smaller than the buffer
			}
			if !checkRead(fmt.Sprintf("ReadMultipleOf(%d)", kk), data, -1, kk) {
				return
			}
			if avail >= kk && len(data) == 0 {
				c.Violate("c18:readmultiple-refused", "size %d: ReadMultipleOf(%d) returned nothing with %d unread; history %v", size, kk, avail, tail())
				return
			}
			c.Cov("readmultiple", 1)
		case k < 9:
			data, err := rd.ReadAll()
			note("ReadAll=%d", len(data))
			if err != nil {
				c.Violate("c18:readall-error", "ReadAll error %v", err)
				return
			}
			avail := int(wpos - rpos)
			if !checkRead("ReadAll", data, -1, 0) {
				return
			}
			if len(data) != avail {
				c.Violate("c18:readall-partial", "size %d: ReadAll returned %d of %d unread bytes; history %v", size, len(data), avail, tail())
				return
			}
		default:
			kk := uint64(vPick(r, 1, 2, 3, 8, size, 1+r.Intn(size)))
			if size > 3*8192 && vChance(r, 0.4) {
				kk = uint64(vPick(r, 8192, 8192, 4096, 3000))
			}
			before := rpos
			if err := rd.DiscardStride(kk); err != nil {
				c.Violate("c18:discard-error", "DiscardStride error %v", err)
				return
			}
			rp := rd.desc.readPointer
			note("DiscardStride(%d): read pointer %d->%d (write %d)", kk, base+before, rp, base+wpos)
			if rp < base+before {
				c.Violate("c18:discard-backwards", "size %d: DiscardStride(%d) moved the read position backwards from %d to %d (write position %d): bytes already returned will be returned again; history %v",
					size, kk, base+before, rp, base+wpos, tail())
				return
			}
			if rp > base+wpos {
				c.Violate("c18:discard-past-write", "size %d: DiscardStride(%d) moved the read position to %d, past the write position %d", size, kk, rp, base+wpos)
				return
			}
			boundary := (base + wpos) - (base+wpos)%kk
			if boundary >= base+before {
				if rp != boundary {
					c.Violate("c18:discard-boundary", "size %d: DiscardStride(%d): read position %d, want the stride boundary %d (write position %d)", size, kk, rp, boundary, base+wpos)
					return
				}
				c.Cov("discards_to_boundary", 1)
			} else {
				c.Cov("discards_no_boundary_ahead", 1)
			}
			rpos = rp - base
		}
		if br := rd.BytesReadable(); br != int(wpos-rpos) {
			c.Violate("c18:readable", "size %d: BytesReadable()=%d, model %d; history %v", size, br, int(wpos-rpos), tail())
			return
		}
	}
	c.Describe("C18 size=%d base=%d nops=%d hist=%v", size, base, nops, hist[:vMin(len(hist), 12)])
	c.Distinct("size", size)
	c.Cov("ops", nops)
	if rpos > uint64(size) {
		c.Nontrivial()
	}
}

func vMin(a, b int) int {
	if a < b {
		return a
	}
	return b
}

func init() {
	vRegister("C18", &vProp{
		Cases: func(tier string) int {
			if tier == "thorough" {
				return 100000
			}
			return 3200
		},
		Run: vRunC18,
		Meta: vMeta{
			Level:       "exploration",
			Rule:        "case = buffer size 2..4096 (incl. non powers of two), optional non-zero starting pointers, history of 20-420 operations Write/Read/ReadMultipleOf/ReadAll/DiscardStride with sizes around 0, 1, free, free±1, held, held±1, size, >size, negative; a real shared-memory ring with separate writer and reader handles; every written byte identifies its stream position, reads are copied at return and compared with a reference byte queue; non-trivial = the history wrapped the buffer at least once",
			Assumptions: []string{"chunk/stride 0 is outside the API's domain (division by zero) and not generated", "a read may legitimately return fewer bytes than requested but must make progress when data are available; ReadAll must return everything"},
			Guards: map[string]map[string]int{
				"quick":    {"bytes_read": 1000000, "reads_across_wrap": 2000, "writes_across_wrap": 2000, "exactly_full": 2000, "exactly_empty": 2000, "discards_to_boundary": 1000, "discards_no_boundary_ahead": 300, "readmultiple": 5000},
				"thorough": {"bytes_read": 30000000, "reads_across_wrap": 60000, "writes_across_wrap": 60000, "exactly_full": 60000, "exactly_empty": 60000, "discards_to_boundary": 30000, "discards_no_boundary_ahead": 9000},
			},
		},
	})
}
